#!/bin/bash
# run every claimed check (quick tier unless VERIF_TIER says otherwise), 3 at a time
cd "$(dirname "$0")/.."
ids=$(python3 -c "import json;print(' '.join(c['property_id'] for c in json.load(open('MANIFEST.json'))['checks']))")
printf '%s\n' $ids | xargs -P 3 -I{} sh -c './check {} "$@" 2>&1 | tail -1' _ "$@"
