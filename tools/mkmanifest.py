#!/usr/bin/env python3
"""Regenerates /verif/MANIFEST.json from the table below (single source of truth)."""
import json, subprocess
props = [json.loads(l) for l in open('/verif/properties.jsonl')]

TECH = "contract-based deductive verification of the real code: govc (go/ssa symbolic execution against //@ contracts -> SMT-LIB2 obligations discharged by z3 4.8.12 / z3 5.1.0 / cvc5 1.0.3)"
BASE_NOTE = ("Trusted: go/packages+go/ssa (x/tools v0.29.0), govc's SSA->SMT translation and heap encoding, the SMT solvers. "
             "int/int64 mathematical (no overflow), float64 as reals; sync.Mutex no-op (sequential semantics); termination not proved; "
             "contracts marked 'mode trusted' (dependencies, externals, not-yet-verified callees) are assumed - each is listed in the evidence file. ")

claimed = {
 "C01": ("proof", "§4 C01", "Every WriteFrame call site of the motion sink is proved (call-site assertions on the real SSA) to pass the ring slot holding exactly the sink's next sequence number (or, for the first frame of a file, a later one), for every state satisfying the processor invariant; stopRecording is proved to re-mark the ring at last+1 so re-triggers tile. Unbounded: all motion strings, refusals, faults, configurations.",
         "Sinks obey the recorder.Recorder interface contract (A4); Detect/NewMotionDetector contracts assumed where marked trusted."),
 "C02": ("proof", "§4 C02", "startRecording/process are proved to begin a file at max(previous last+1, trigger-(size-1)) with size = preview-secs*fps+trigger-frames established by NewMotionProcessor; FrameLoop.GetHistory is proved to return exactly the retained history oldest first.", ""),
 "C03": ("proof", "§4 C03", "process is proved to stop exactly when framesWritten reaches min(lastMotion+minFrames, maxFrames) (ghost lastMotionFW), with min/maxFrames = secs*FPS() from NewMotionProcessor and max>=min from RecorderConfig.validate.", "Clause guarded by 'no write fault in this file' (the statement does not speak about write faults)."),
 "C04": ("proof", "§4 C04", "process is proved to start a recording iff not recording, motion, run+1 >= trigger-frames, window active, CheckCanRecord ok and the sink's start succeeds (ghost run counter, oracles for window/disk/start).", "window.Window.Active() and the sink's CheckCanRecord are oracles (dependency / interface contract)."),
 "C05": ("proof", "§4 C05", "Proved on /repo: a frame reaches the wrapped recorder only by consuming exactly one token (WriteFrame: base.writes delta == tokens-taken delta <= 1; Start/Stop never write), and the bucket is constructed with capacity floor(bucket-size secs)*fps, min length minSeconds*fps and rate minFrames/min-refill secs. The token-bucket law itself (tokens handed out in any interval <= capacity + refill earned) is the juju/ratelimit dependency's: its TakeAvailable/Available contracts are ASSUMED (contracts/ratelimit.spec).",
         "ASSUMED: juju/ratelimit Bucket contract (refill monotone, capped at capacity, TakeAvailable(1) hands out a token iff one is available); NewBucketWithRateAndClock's rate search; clock monotone. The wiring in cmd/thermal-recorder/main.go (Activate, MinSecs+PreviewSecs) is not yet under contract."),
 "C06": ("proof", "§4 C06", "StartRecording/WriteFrame/StopRecording/maybeStartRecording/CheckCanRecord of ThrottledRecorder are proved per case against the sink automaton of the wrapped recorder: within budget exactly one forwarded call with the same arguments and result; suppressed start / cut: exactly one WhenThrottled, clean stop, cut file holds >= minRecordingLength frames (invariant inFile+available >= min); mid-trigger restart only with available >= minRecordingLength and with the remembered background/threshold; failing base start leaves recording false; base sink protocol requires discharged at every call.", "ASSUMED: juju/ratelimit Bucket contract; wrapped recorder obeys the recorder.Recorder contract."),
 "C07": ("proof", "§4 C07", "Layer 1 exact: absDiff/warmerDiff, abs/warmerDiffFrames (out = D(clamp(a),clamp(b)) on the interior, unchanged elsewhere), CountPixels/CountPixelsTwoCompare (= recursive count of pixels > delta, AND of both diffs), hasMotion (count >= count-thresh) are proved for every resolution and pixel value with quantified loop invariants. Layer 2 structural: pixelsChanged is proved to copy the frame into the floored ring, diff it against FrameLoop.Oldest() (= the frame gap frames earlier or the earliest since the mark, by the ring contract with size gap+1 from NewMotionDetector), choose warmer/abs and one/two-diff counting from the configuration, and return false on the first diff; Detect returns exactly pixelsChanged's answer. Not proved: an end-to-end statement over a ghost history of past frames' pixel contents (that the other diff slot still holds the previous frame's comparison is the ring's size-2 structure, not a content invariant).", "updateBackground is not involved with a fixed threshold (proved: not called)."),
 "C08": ("proof", "§4 C08", "Functional postconditions that mention interior pixels only: the diff/count functions determine their outputs from the interior of their inputs (border of out unchanged, counts over the interior), so any implementation satisfying them is independent of border pixels; the cold-pixel part is the clamp cl(v,T) in those postconditions (lemma: v,v' <= T give equal cl). NewMotionDetector proves start/rowStop/columnStop from edge-pixels and the resolution.", "The background/threshold part rests on updateBackground's contract, which is ASSUMED (mode trusted) in this revision."),
 "C09": ("proof", "§4 C09", "isAffectedByFFC (TimeOn-LastFFCTime < 10 s), Detect (affectedByFCC' = affected(frame); affected(frame) or previous-affected implies no motion; pixelsChanged called once with the previous flag), pixelsChanged (FFC branch re-marks the floored ring at the current frame and clears firstDiff; ghost epoch <= mark invariant so the compared frame is never older than the last FFC-affected frame), detector Reset (both rings reset, epoch 0) and MotionProcessor.Reset are proved.", "Independence is established at the level of which frames are compared (ring marks), not as a two-run relational statement over pixel contents; the dynamic-threshold provenance across Reset+FFC (DESIGN.md F5) is outside these contracts."),
 "C15": ("proof", "§4 C15", "calculateThreshold is proved to yield floor(clamp(mean, min, max)) (defect F1 repaired); Detect is proved to recompute the threshold exactly when the background changed and more than preview frames have been seen, from updateBackground's returned mean, and to leave it untouched otherwise / during FFC / with a fixed threshold; startRecording is proved to hand the current background and threshold to the sink. ", "updateBackground's own contract (background <= frame on the interior, re-seed after FFC/first frame, returned mean) is ASSUMED in this revision (mode trusted); float32 weights are uninterpreted."),
 "C12": ("proof", "§4 C12", "The sink protocol (write only while open, no start while open) is a requires of the recorder.Recorder interface contract and is discharged at every call site of the three sinks for every fault placement; the processor invariant is proved to be re-established after every outcome; the automatic no-panic sweep (nil, index, slice bounds, division) covers every function under contract.", "Implementations of recorder.Recorder are assumed to refine the interface contract."),
 "C17": ("proof", "§4 C17", "processConstantRecorder/processSnapshot are proved per call: one write per frame, start iff the file is empty, stop iff maxFrames+1 (resp. 21) frames are in the file; Process calls them once per valid frame with the same frame.", ""),
 "C19": ("proof", "§3.1/§4 C19", "All ten FrameLoop functions are proved against an abstract history view (ghost base/mark): inv preserved, GetHistory = retained sequence numbers oldest first ending with the current frame, Oldest, CopyRecent, Reset, for every capacity >= 1 and every reachable state.", "cptvframe.NewFrame/CreateCopy contracts assumed (fresh storage)."),
 "C20": ("proof", "§4 C20", "Print is proved to suppress iff the message equals the last message actually handed to log.Print (ghost) and less than interval has elapsed since that print; otherwise log.Print is called exactly once with the unmodified string and the state is updated; Printf = Print(Sprintf(...)); NewMotionProcessor uses one minute.", "time.Time.Sub as integer difference of an abstract time value; log.Print effect observed through the call trace."),
}
not_applicable = {
 "C16": "quantifies over goroutine interleavings and data races; sequential function contracts cannot express or decide interleavings (DESIGN.md §6)",
 "C18": "reader/writer goroutines and channel hand-off of recycled buffers; no sequential contract within reach states it (DESIGN.md §6)",
}
pending = "not claimed yet in this revision (contracts in progress; see DESIGN.md)"

hooks = subprocess.run(["git","-C","/repo","log","--format=%H %s"],capture_output=True,text=True).stdout.splitlines()
hook_commits = [l.split()[0] for l in hooks if l.split(' ',1)[1].startswith('verif:')]

m = {
 "version": 1,
 "setup_cmd": "cd /verif/govc && GOFLAGS=-mod=mod GOPROXY=off GOSUMDB=off GOTOOLCHAIN=local go build -o /verif/bin/govc .",
 "hooks": {"guard": "verif",
           "enable": "go build -tags verif ./... - the tag adds only comment-only contract files (<pkg>/verif_contracts.go, zero declarations, checked on every run); govc loads /repo with -tags=verif",
           "baseline_off_cmd": "cd /repo && GOFLAGS=-mod=mod GOPROXY=off GOSUMDB=off go test -vet=off -count=1 ./...",
           "source_commits": hook_commits, "add_only": True},
 "engines": [{"name": "govc", "path": "/verif/govc", "serves_properties": sorted(claimed),
              "kind_free_text": "contract-based deductive verifier for Go written for this task (VC generation over go/ssa, SMT back ends)"}],
 "checks": [], "not_applicable": [],
 "notes": "Approach and per-property decisions: DESIGN.md. Known findings / fixed defects: known_findings.txt. Must-fail corpus: selftest/.",
}
for p in props:
    pid = p["id"]
    if pid in claimed:
        cat, ref, text, note = claimed[pid]
        m["checks"].append({
            "property_id": pid, "quick_cmd": f"./check {pid} --tier quick", "thorough_cmd": f"./check {pid} --tier thorough",
            "evidence_file": f"/verif/evidence/{pid}.json", "replay_cmd_template": f"./check {pid} --replay {{path}}", "engine": "govc",
            "level_claimed": {"category": cat, "text": text, "design_ref": ref},
            "level_note": BASE_NOTE + note, "technique": TECH})
    else:
        m["not_applicable"].append({"property_id": pid, "reason": not_applicable.get(pid, pending)})
json.dump(m, open('/verif/MANIFEST.json', 'w'), indent=1)
print("claimed", sorted(claimed), "n/a", [x["property_id"] for x in m["not_applicable"]])
