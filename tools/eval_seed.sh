#!/bin/bash
# eval_seed.sh <PROP> <seed-dir-with-SEED/> <name>
# Confirms a sub-agent's seeded change (applies to /repo's HEAD, builds, existing
# suite passes, demonstration fails with / passes without the change), runs the
# property's check against it and stores the result under /verif/seeded/<name>/.
export GOFLAGS=-mod=mod GOPROXY=off GOSUMDB=off GOTOOLCHAIN=local
PROP="$1"; SRC="$2"; NAME="$3"
HERE=/verif
[ -f "$SRC/SEED/patch.diff" ] || { echo "no patch.diff in $SRC/SEED"; exit 2; }
scratch=$(mktemp -d /tmp/evalseed-XXXXXX); out=$(mktemp -d /tmp/evalseed-out-XXXXXX)
trap 'rm -rf "$scratch" "$out"' EXIT
rsync -a --exclude .git /repo/ "$scratch/"
demo=$(ls "$SRC"/SEED/*_test.go 2>/dev/null | head -1)
pkgdir=$(cd "$SRC" && git status --porcelain | grep 'zz_seed_demo_test.go' | awk '{print $2}' | head -1 | xargs -r dirname)
[ -n "$pkgdir" ] || pkgdir=$(grep -o '[a-zA-Z/_-]*zz_seed_demo_test.go' "$SRC/SEED/notes.md" | head -1 | xargs -r dirname)
echo "demo=$demo pkgdir=$pkgdir"
# 1. demo passes on the unchanged tree
cp "$demo" "$scratch/$pkgdir/zz_seed_demo_test.go"
(cd "$scratch" && go test -vet=off -count=1 -timeout 120s ./$pkgdir >/dev/null 2>&1) && base_ok=yes || base_ok=no
# 2. apply patch
(cd "$scratch" && patch -p1 -s < "$SRC/SEED/patch.diff") || { echo "PATCH DOES NOT APPLY"; exit 3; }
(cd "$scratch" && go build ./... ) || { echo "DOES NOT BUILD"; exit 3; }
(cd "$scratch" && go test -vet=off -count=1 -timeout 120s ./$pkgdir >/dev/null 2>&1) && demo_fails=no || demo_fails=yes
rm -f "$scratch/$pkgdir/zz_seed_demo_test.go"
(cd "$scratch" && go test -vet=off -count=1 -timeout 300s ./... >/dev/null 2>&1) && suite_ok=yes || suite_ok=no
echo "demo passes without change: $base_ok; demo fails with change: $demo_fails; existing suite passes with change: $suite_ok"
# 3. the check
res=$(VERIF_REPO="$scratch" VERIF_OUT_DIR="$out" "$HERE/check" "$PROP" --tier quick 2>&1)
if echo "$res" | grep -q "^VIOLATION property=$PROP"; then caught=yes; else caught=no; fi
echo "$res" | grep -E "^VIOLATION|^  obligation|^property" | head -8
echo "CAUGHT=$caught"
if [ "$base_ok" = yes ] && [ "$demo_fails" = yes ] && [ "$suite_ok" = yes ]; then
  d="$HERE/seeded/$NAME"; mkdir -p "$d"
  cp "$SRC/SEED/patch.diff" "$d/patch.diff"; cp "$demo" "$d/$(basename $demo)"; cp "$SRC/SEED/notes.md" "$d/notes.md" 2>/dev/null
  first=$(echo "$res" | grep -m1 '^  obligation' | sed 's/^  //' | cut -c1-200)
  replayed=$(echo "$res" | grep -m1 '^VIOLATION' | grep -q 'no-failing-input-found' && echo no || echo yes)
  python3 - "$d" "$PROP" "$pkgdir" "$caught" "$first" "$replayed" <<'PY'
import json,sys,re
d,prop,pkg,caught,first,replayed=sys.argv[1:7]
notes=open(d+'/notes.md').read() if __import__('os').path.exists(d+'/notes.md') else ''
json.dump({"property":prop,"demo_package":pkg,"needs_to_manifest":notes[:1500],
 "confirmed":{"demo_passes_without_change":True,"demo_fails_with_change":True,"existing_suite_passes_with_change":True,
              "how":"tools/eval_seed.sh: scratch copy of /repo HEAD, go test of the demo with and without patch.diff, go test ./... with it"},
 "check":{"command":"VERIF_REPO=<scratch> ./check %s --tier quick"%prop,"caught":caught=="yes","first_failed_obligation":first,"failing_input_replayed":replayed=="yes"}},
 open(d+'/meta.json','w'),indent=1)
PY
  echo "stored in $d"
else
  echo "NOT CONFIRMED - not stored"
fi
