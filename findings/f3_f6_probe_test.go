package motion

// Demonstration of findings F3 and F6 against the real code (run with
// `go test -overlay`, see /verif/findings/run.sh). A protocol monitor wraps the
// three sinks; a violation is a write while closed or a start while open.

import (
	"errors"
	"testing"

	config "github.com/TheCacophonyProject/go-config"
	"github.com/TheCacophonyProject/go-cptv/cptvframe"
	"github.com/TheCacophonyProject/lepton3"
	"github.com/TheCacophonyProject/thermal-recorder/recorder"
	"github.com/TheCacophonyProject/window"
)

type monSink struct {
	open       bool
	violations []string
	failStop   bool
}

func (m *monSink) StartRecording(*cptvframe.Frame, uint16) error {
	if m.open {
		m.violations = append(m.violations, "START WHILE OPEN")
	}
	m.open = true
	return nil
}
func (m *monSink) StopRecording() error {
	m.open = false
	if m.failStop {
		return errors.New("stop failed")
	}
	return nil
}
func (m *monSink) WriteFrame(*cptvframe.Frame) error {
	if !m.open {
		m.violations = append(m.violations, "WRITE WHILE CLOSED")
	}
	return nil
}
func (m *monSink) CheckCanRecord() error { return nil }

type probeCam struct{}

func (probeCam) ResX() int { return 8 }
func (probeCam) ResY() int { return 8 }
func (probeCam) FPS() int  { return 1 }

func newProbe(constant, snap *monSink, bad *bool) *MotionProcessor {
	w, _ := window.New("12:00", "12:00", 0, 0)
	rc := &recorder.RecorderConfig{MinSecs: 1, MaxSecs: 3, PreviewSecs: 1, Window: *w}
	mc := config.DefaultThermalMotion("lepton3")
	parse := func(raw []byte, f *cptvframe.Frame, edge int) error {
		if *bad {
			return &lepton3.BadFrameErr{Cause: errors.New("bad")}
		}
		return nil
	}
	return NewMotionProcessor(parse, &mc, rc, nil, nil, &monSink{}, probeCam{}, constant, snap)
}

func TestF3BadFrameLeavesConstantRecorderCounting(t *testing.T) {
	c, s := &monSink{}, &monSink{}
	bad := false
	mp := newProbe(c, s, &bad)
	mp.Process(nil)
	bad = true
	mp.Process(nil) // bad frame: constant recorder stopped, crFrames stays 1
	bad = false
	mp.Process(nil) // written to the closed sink
	if len(c.violations) > 0 {
		t.Fatalf("continuous sink protocol violated: %v", c.violations)
	}
}

func TestF3StopErrorLeavesConstantRecorderCounting(t *testing.T) {
	c, s := &monSink{failStop: true}, &monSink{}
	bad := false
	mp := newProbe(c, s, &bad)
	for i := 0; i < 6; i++ {
		mp.Process(nil)
	}
	if len(c.violations) > 0 {
		t.Fatalf("continuous sink protocol violated: %v", c.violations)
	}
}

func TestF6SecondSnapshotRequestWhileRecording(t *testing.T) {
	c, s := &monSink{}, &monSink{}
	bad := false
	mp := newProbe(c, s, &bad)
	mp.StartSnapshot = true
	mp.Process(nil)
	mp.StartSnapshot = true
	mp.Process(nil)
	if len(s.violations) > 0 {
		t.Fatalf("test-recording sink protocol violated: %v", s.violations)
	}
}
