package main

import (
	"fmt"
	"net"
	"os"
	"path/filepath"
	"testing"
	"time"
)

// F13: a camera header whose FrameSize is smaller than what the selected parser reads
// (here 100 bytes for a 32x24 Boson image) makes the frame loop panic. Not covered by any
// listed property; recorded as an assumption of the checks (consistent header).
// Run: go test -overlay <map this file into cmd/thermal-recorder> -run TestProbeInconsistentHeader -v
func TestProbeInconsistentHeader(t *testing.T) {
	dir, _ := os.MkdirTemp("", "probe-")
	defer os.RemoveAll(dir)
	out := filepath.Join(dir, "out")
	os.Mkdir(out, 0755)
	toml := fmt.Sprintf("[device]\nid = 1\nname = \"p\"\n\n[thermal-recorder]\noutput-dir = %q\nmin-disk-space-mb = 0\n\n[thermal-throttler]\nactivate = false\n", out)
	os.WriteFile(filepath.Join(dir, "config.toml"), []byte(toml), 0644)
	conf, err := ParseConfig(dir)
	if err != nil {
		t.Fatal(err)
	}
	server, client := net.Pipe()
	done := make(chan string, 1)
	go func() {
		defer func() {
			if r := recover(); r != nil {
				done <- fmt.Sprintf("PANIC: %v", r)
			}
		}()
		done <- fmt.Sprintf("returned: %v", handleConn(server, conf))
	}()
	go func() {
		client.Write([]byte("ResX: 32\nResY: 24\nFrameSize: 100\nModel: boson\nBrand: flir\nFPS: 9\nFirmware: \"1\"\nCameraSerial: 1\n\n"))
		b := make([]byte, 100); for i := range b { b[i] = 1 }; client.Write(b)
		time.Sleep(200 * time.Millisecond)
		client.Close()
	}()
	select {
	case r := <-done:
		t.Log(r)
		fmt.Println("RESULT", r)
	case <-time.After(10 * time.Second):
		t.Fatal("hang")
	}
}
