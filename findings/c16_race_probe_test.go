package motion

// Probe for C16 (run with -race): the request path (GetRecentFrame, a test-recording
// request) against the frame loop (Process / ProcessFrame / Reset) on the real code.
// Each test fails iff the race detector reports a data race (go test exits non-zero).

import (
	"runtime"
	"sync"
	"testing"

	"github.com/TheCacophonyProject/go-cptv/cptvframe"
)

func c16Processor(previewSecs, triggerFrames int) (*MotionProcessor, cptvframe.CameraSpec) {
	mConf := MotionTestConfig()
	mConf.TriggerFrames = triggerFrames
	rConf := RecorderTestConfig()
	rConf.PreviewSecs = previewSecs
	camera := new(TestCamera)
	rec := new(TestRecorder)
	snap := new(TestRecorder)
	// a parser that fills the frame it is given from the raw bytes, as the real parsers do
	parse := func(raw []byte, out *cptvframe.Frame, edge int) error {
		for y := range out.Pix {
			for x := range out.Pix[y] {
				out.Pix[y][x] = 3000 + uint16(raw[0])
			}
		}
		return nil
	}
	return NewMotionProcessor(parse, mConf, rConf, LocationTestConfig(), nil, rec, camera, nil, snap), camera
}

func c16Run(t *testing.T, mp *MotionProcessor, camera cptvframe.CameraSpec, loop func(i int), request func()) {
	var wg sync.WaitGroup
	stop := make(chan struct{})
	started := make(chan struct{})
	wg.Add(1)
	go func() {
		defer wg.Done()
		first := true
		for {
			select {
			case <-stop:
				return
			default:
				request()
				if first {
					close(started)
					first = false
				}
			}
		}
	}()
	<-started
	for i := 0; i < 300; i++ {
		loop(i)
		runtime.Gosched()
	}
	close(stop)
	wg.Wait()
}

func c16Frame(camera cptvframe.CameraSpec, i int) *cptvframe.Frame {
	f := cptvframe.NewFrame(camera)
	for y := range f.Pix {
		for x := range f.Pix[y] {
			f.Pix[y][x] = uint16(3000 + i%7)
		}
	}
	return f
}

// whole-frame clause: the snapshot copy against the frame being filled (ring of >= 2 slots)
func TestC16SnapshotVsFrameFill(t *testing.T) {
	mp, camera := c16Processor(1, 2)
	fl := mp.frameLoop
	c16Run(t, mp, camera, func(i int) {
		cur := fl.Current()
		cur.Copy(c16Frame(camera, i)) // what the frame parser does: fill the current slot
		fl.Move()
	}, func() { fl.CopyRecent() })
}

// the same with a one-slot ring (preview-secs 0, trigger-frames 1)
func TestC16SnapshotVsFrameFillOneSlot(t *testing.T) {
	mp, camera := c16Processor(0, 1)
	fl := mp.frameLoop
	c16Run(t, mp, camera, func(i int) {
		cur := fl.Current()
		cur.Copy(c16Frame(camera, i))
		fl.Move()
	}, func() { fl.CopyRecent() })
}

// camera reset ('clear') against a snapshot request
func TestC16SnapshotVsReset(t *testing.T) {
	mp, camera := c16Processor(1, 2)
	c16Run(t, mp, camera, func(i int) { mp.frameLoop.Reset() }, func() { mp.frameLoop.CopyRecent() })
}

// frame counter read by the request path
func TestC16FrameCounter(t *testing.T) {
	mp, camera := c16Processor(1, 2)
	c16Run(t, mp, camera, func(i int) { mp.Process([]byte{byte(i % 7)}) }, func() { mp.GetRecentFrame() })
}

// test-recording request flag
func TestC16TestRecordingRequest(t *testing.T) {
	mp, camera := c16Processor(1, 2)
	c16Run(t, mp, camera, func(i int) { mp.Process([]byte{byte(i % 7)}) }, func() { mp.StartSnapshot = true })
}
