package motion

// Demonstration of findings F1 and F2 (C15) against the real code.

import (
	"testing"
	"time"

	config "github.com/TheCacophonyProject/go-config"
	"github.com/TheCacophonyProject/go-cptv/cptvframe"
)

type f1Cam struct{}

func (f1Cam) ResX() int { return 8 }
func (f1Cam) ResY() int { return 8 }
func (f1Cam) FPS() int  { return 9 }

func TestF1ThresholdKeepsMinWhenMaxConfigured(t *testing.T) {
	mc := config.DefaultThermalMotion("lepton3")
	mc.TempThreshMin, mc.TempThreshMax = 3000, 4000
	d := NewMotionDetector(mc, 1, f1Cam{})
	d.calculateThreshold(2000)
	if d.tempThresh != 3000 {
		t.Fatalf("mean 2000 limited to [3000,4000] must be 3000, got %d", d.tempThresh)
	}
}

func TestF2FirstFrameDoesNotZeroThreshold(t *testing.T) {
	mc := config.DefaultThermalMotion("lepton3")
	mc.DynamicThreshold = true
	mc.TempThreshMin, mc.TempThreshMax = 0, 0
	mc.EdgePixels = 1
	d := NewMotionDetector(mc, 0, f1Cam{}) // preview-secs = 0
	f := cptvframe.NewFrame(f1Cam{})
	for y := range f.Pix {
		for x := range f.Pix[y] {
			f.Pix[y][x] = 3500
		}
	}
	f.Status.TimeOn = time.Minute
	f.Status.LastFFCTime = time.Second
	d.Detect(f)
	if d.tempThresh == 0 {
		t.Fatalf("threshold recomputed from a placeholder mean: got 0 for a uniform 3500 scene")
	}
}
