#!/bin/bash
# Runs the finding demonstrations against /repo's working tree without writing into it.
export GOFLAGS=-mod=mod GOPROXY=off GOSUMDB=off GOTOOLCHAIN=local
HERE="$(cd "$(dirname "$0")" && pwd)"
REPO="${1:-/repo}"
ov=$(mktemp)
cat > "$ov" <<JSON
{"Replace": {"$REPO/motion/zz_probe_test.go": "$HERE/f3_f6_probe_test.go", "$REPO/motion/zz_probe2_test.go": "$HERE/f1_f2_probe_test.go", "$REPO/cmd/thermal-recorder/zz_probe3_test.go": "$HERE/f4_probe_test.go"}}
JSON
(cd "$REPO" && go test -overlay "$ov" -vet=off -count=1 -timeout 60s -run 'TestF[0-9]' ./motion ./cmd/thermal-recorder)
rc=$?
rm -f "$ov"
exit $rc
