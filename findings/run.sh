#!/bin/bash
# Runs the finding demonstrations against /repo's working tree without writing into it.
export GOFLAGS=-mod=mod GOPROXY=off GOSUMDB=off GOTOOLCHAIN=local
HERE="$(cd "$(dirname "$0")" && pwd)"
REPO="${1:-/repo}"
ov=$(mktemp)
cat > "$ov" <<JSON
{"Replace": {"$REPO/motion/zz_probe_test.go": "$HERE/f3_f6_probe_test.go", "$REPO/motion/zz_probe2_test.go": "$HERE/f1_f2_probe_test.go", "$REPO/cmd/thermal-recorder/zz_probe3_test.go": "$HERE/f4_probe_test.go"}}
JSON
(cd "$REPO" && go test -overlay "$ov" -vet=off -count=1 -timeout 60s -run 'TestF[0-9]' ./motion ./cmd/thermal-recorder)
rc=$?
rm -f "$ov"
# C16: the data races recorded as known findings, shown by the race detector. Each of
# the three "finding" tests is EXPECTED to fail with "WARNING: DATA RACE"; the two
# control tests (ring of >= 2 slots, reset after the repair) are expected to pass.
ov=$(mktemp)
printf '{"Replace": {"%s/motion/zz_c16_probe_test.go": "%s/c16_race_probe_test.go"}}\n' "$REPO" "$HERE" > "$ov"
for t in TestC16SnapshotVsFrameFill TestC16SnapshotVsReset; do
  out=$(cd "$REPO" && go test -race -overlay "$ov" -vet=off -count=1 -timeout 120s -run "^$t\$" ./motion 2>&1)
  if echo "$out" | grep -q "WARNING: DATA RACE"; then echo "C16 control $t: UNEXPECTED data race"; rc=1; else echo "C16 control $t: no race (as expected)"; fi
done
for t in TestC16SnapshotVsFrameFillOneSlot TestC16FrameCounter TestC16TestRecordingRequest; do
  out=$(cd "$REPO" && go test -race -overlay "$ov" -vet=off -count=1 -timeout 120s -run "^$t\$" ./motion 2>&1)
  if echo "$out" | grep -q "WARNING: DATA RACE"; then echo "C16 finding $t: data race demonstrated on the real code"; else echo "C16 finding $t: no race reported (finding may have been repaired)"; fi
done
rm -f "$ov"
exit $rc
