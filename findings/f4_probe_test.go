package main

// Demonstration of finding F4 (C10): a recording killed in progress leaves
// <ts>.cptv.temp and go-cptv's scratch file <ts>.cptv.temp.tmp; start-up
// clean-up must remove both.

import (
	"io/ioutil"
	"os"
	"path/filepath"
	"sort"
	"testing"

	cptv "github.com/TheCacophonyProject/go-cptv"
)

type f4Cam struct{}

func (f4Cam) ResX() int { return 4 }
func (f4Cam) ResY() int { return 4 }
func (f4Cam) FPS() int  { return 9 }

func TestF4CleanupRemovesWriterScratchFile(t *testing.T) {
	dir, err := ioutil.TempDir("", "f4")
	if err != nil {
		t.Fatal(err)
	}
	defer os.RemoveAll(dir)
	// a recording in progress, exactly as CPTVFileRecorder.StartRecording creates it ...
	w, err := cptv.NewFileWriter(filepath.Join(dir, "20200101.000000.000.cptv.temp"), f4Cam{})
	if err != nil {
		t.Fatal(err)
	}
	_ = w // ... and the process is killed here: nothing is closed or removed
	ioutil.WriteFile(filepath.Join(dir, "20190101.000000.000.cptv"), []byte("complete"), 0644)
	if err := deleteTempFiles(dir); err != nil {
		t.Fatal(err)
	}
	var left []string
	fis, _ := ioutil.ReadDir(dir)
	for _, fi := range fis {
		left = append(left, fi.Name())
	}
	sort.Strings(left)
	if len(left) != 1 || left[0] != "20190101.000000.000.cptv" {
		t.Fatalf("after clean-up the directory must hold complete recordings only, got %v", left)
	}
}
