package main

// Symbolic execution of go/ssa (NaiveForm) function bodies against contracts.

import (
	"fmt"
	"go/constant"
	"go/token"
	"go/types"
	"sort"
	"strings"

	"golang.org/x/tools/go/ssa"
)

type execError struct{ msg string }

func (e execError) Error() string { return e.msg }

func (fe *FnExec) fail(format string, a ...interface{}) {
	panic(execError{fmt.Sprintf(format, a...)})
}

// verifyFunction generates all obligations of fn against its contract.
func verifyFunction(p *Program, fn *ssa.Function, c *FuncContract, emit func(*Obligation), maxPaths int) (fe *FnExec) {
	fe = &FnExec{P: p, Fn: fn, C: c, Mode: c.Mode, preludeSet: map[string]bool{}, initHeap: map[string]Term{},
		emit: emit, maxPaths: maxPaths, strLits: map[string]Term{}, typeCodes: map[string]int{},
		safetyOrd: map[ssa.Instruction]int{}, callOrd: map[ssa.Instruction]int{}, usedGhosts: map[int]bool{}, asyncCallees: map[string]bool{}, guardOrd: map[ssa.Instruction]int{}}
	defer func() {
		if r := recover(); r != nil {
			if ee, ok := r.(execError); ok {
				fe.errorf("%s", ee.msg)
				return
			}
			panic(r)
		}
	}()
	fe.funcTags = contractTags(c)
	if len(fn.Blocks) == 0 {
		fe.fail("function %s has no body", fn)
	}
	fe.findLoops()
	fe.numberSites()
	for _, cg := range c.CallGhosts {
		n := 0
		if cg.Callee == "make" {
			for _, b := range fn.Blocks {
				for _, in := range b.Instrs {
					if _, ok := in.(*ssa.MakeSlice); ok {
						n++
					}
				}
			}
		}
		for in, o := range fe.callOrd {
			if ci, ok := in.(ssa.CallInstruction); ok && calleeShortName(ci.Common()) == cg.Callee && o > n {
				n = o
			}
			if pseudoCallName(in) == cg.Callee && o > n {
				n = o
			}
		}
		if cg.Ordinal < 1 || cg.Ordinal > n {
			fe.errorf("contract refers to call %s#%d but %s contains %d such call(s)", cg.Callee, cg.Ordinal, fn, n)
		}
	}
	for n := range c.LoopInv {
		if n < 1 || n > len(fe.loops) {
			fe.errorf("contract names loop %d but %s has %d loops", n, fn, len(fe.loops))
		}
	}
	st := &State{fe: fe, heap: map[string]Term{}, locals: map[*ssa.Alloc]SVal{}, vals: map[ssa.Value]SVal{},
		binds: map[string]Binding{}, facts: map[string]bool{}, callCnt: map[string]int{}, callNum: map[string]Term{}, callLog: map[string]callRec{}}
	fe.addPrelude("now0", "(declare-const now0 Int)")
	st.now = Term{"now0", SInt}
	fe.entryNow = st.now
	// axioms
	for _, ax := range p.Axioms {
		env := &Env{fe: fe, st: st, vars: map[string]Binding{}, pkg: ax.Pkg, qn: &fe.qn}
		t, err := env.evalBool(ax.E)
		if err != nil {
			fe.fail("axiom %s: %v", ax.Name, err)
		}
		// An axiom takes part in a query only if the query mentions one of the spec
		// functions the axiom is about (see buildQuery): ground facts about symbols a
		// query never uses were seen to flip a 0.05 s proof into a timeout.
		fe.axioms = append(fe.axioms, lazyAxiom{name: ax.Name, term: t, syms: specSymbols(t.S)})
	}
	// parameters
	fe.params = map[string]Binding{}
	names := paramNames(fn, c)
	for i, prm := range fn.Params {
		v, err := st.freshValue("p."+names[i], prm.Type())
		if err != nil {
			fe.fail("parameter %s: %v", prm.Name(), err)
		}
		st.vals[prm] = v
		fe.params[names[i]] = Binding{v, prm.Type()}
		for _, t := range flatten(v) {
			fe.watch = append(fe.watch, t.S)
		}
	}
	fe.resNames = resultNames(fn, c)
	// refinement of an interface method: its precondition plus the coupling invariant
	// must imply the method's own precondition
	if c.Impl != nil {
		if _, isFuncType := fe.implFuncType(); isFuncType {
			fe.refineFuncType(st.snapshot())
		} else {
			fe.refineRequires(st.snapshot())
		}
	}
	// requires
	pre := st.snapshot()
	env := fe.env(st, pre)
	for i, cl := range c.Requires {
		t, err := env.evalBool(cl.E)
		if err != nil {
			fe.fail("requires#%d (%s): %v", i+1, cl.Text, err)
		}
		st.assume(t, "requires: "+cl.Text)
	}
	// modifies set evaluated at entry
	for _, ml := range c.Modifies {
		es, err := fe.evalModLoc(env, ml)
		if err != nil {
			fe.fail("modifies %s: %v", ml.Text, err)
		}
		fe.modset = append(fe.modset, es...)
	}
	fe.entry = st.snapshot()
	fe.cover(st, "entry", "requires satisfiable")
	// ghost entry assignments
	for _, ga := range c.GhostEntry {
		fe.ghostAssign(st, fe.entry, ga, nil)
	}
	fe.runBlock(st, fn.Blocks[0])
	if fe.retPaths == 0 && len(fe.errs) == 0 {
		fe.errorf("no path of %s reaches a return", fn)
	}
	fe.checkOnlyClauses()
	fe.checkReadOnly()
	fe.checkCallees()
	fe.checkThreadCallees()
	// every call-site clause of the contract must have been exercised on some path
	if len(fe.errs) == 0 {
		for i, cg := range c.CallGhosts {
			if !fe.usedGhosts[i] {
				fe.errorf("call-site clause 'call %s#%d %s' was never reached on any path", cg.Callee, cg.Ordinal, cg.Kind)
			}
		}
	}
	return fe
}

// ---------------------------------------------------------------------------
// lock discipline (C16). Declarations: "guarded T.f by m", "immutable T.f" (also for
// package-level variables with "global"), and "thread any" on functions that may run
// on a thread other than the frame loop's.
//   every function: a store to a guarded location needs its mutex held (by this
//     thread), a store to an immutable location needs a fresh object;
//   thread-any functions: every field/global access must be to a fresh object, an
//     immutable location (loads), or a guarded location with its mutex held.
// The frame loop is the only writer of guarded locations, so its own unlocked reads
// do not race; that single-writer fact is exactly what the store rule and the
// thread-any rule (no stores without the lock, none at all to unguarded shared state)
// establish.

func (fe *FnExec) mutexHeld(st *State, key string, ref Term, owner string, mutex string) Term {
	if strings.HasPrefix(key, "global:") {
		// package-level mutex variable of the same package
		pkg := key[len("global:"):]
		pkg = pkg[:strings.LastIndex(pkg, ".")]
		mref := fe.globalObjRef(pkg + "." + mutex)
		v, err := st.loadField(mref, "sync.Mutex", "held", types.Typ[types.Bool])
		if err != nil {
			fe.fail("lock discipline: %v", err)
		}
		return v.(Scalar).T
	}
	mref := st.embRef(ref, owner, mutex)
	v, err := st.loadField(mref, "sync.Mutex", "held", types.Typ[types.Bool])
	if err != nil {
		fe.fail("lock discipline: %v", err)
	}
	return v.(Scalar).T
}

// globalObjRef: the (constant, non-nil, pre-existing) reference standing for a
// struct-typed package-level variable.
func (fe *FnExec) globalObjRef(name string) Term {
	n := fe.uninterp("globobj."+shortFn(name), nil, SInt)
	fe.addPrelude("globobj:"+n, "(assert (and (not (= "+n+" 0)) (< (birth "+n+") now0) (= (tagof "+n+") 0)))")
	return Term{n, SInt}
}

func (fe *FnExec) lockDiscipline(st *State, in ssa.Instruction, access string, key string, ref Term, owner string) {
	p := fe.P
	mutex, guarded := p.Guarded[key]
	immutable := p.Immutable[key]
	anyThread := fe.C.Thread == "any"
	if !guarded && !immutable && !anyThread {
		return
	}
	if fe.Fn.Name() == "init" && fe.Fn.Signature.Recv() == nil {
		return // package initialisation runs before any other goroutine exists
	}
	if st.dead {
		return
	}
	isGlobal := strings.HasPrefix(key, "global:")
	fresh := TFalse
	if !isGlobal {
		fresh = Ge(birth(ref), fe.entryNow)
	}
	var goal Term
	what := ""
	switch {
	case guarded:
		if access == "load" && !anyThread {
			return // the single writer thread reads its own writes
		}
		goal = Or(fresh, fe.mutexHeld(st, key, ref, owner, mutex))
		what = access + " of " + shortFn(key) + " with " + mutex + " held"
	case immutable:
		if access == "load" {
			return
		}
		goal = fresh
		what = "store to immutable " + shortFn(key) + " only while the object is being constructed"
	default: // thread any, location neither guarded nor immutable
		goal = fresh
		what = access + " of " + shortFn(key) + " from a request thread: the location is neither guarded by a mutex nor immutable"
	}
	fe.guardOrd[in]++
	fe.assert(st, goal, fmt.Sprintf("guard/%s:%s@%s", access, shortFn(key), fe.siteName(in)), "guard", []string{"C16"}, what, in.Pos())
}

// checkReadOnly: "readonly p" - the function (and the function literals it contains)
// stores to nothing reached from parameter p through field and element addresses.
func (fe *FnExec) checkReadOnly() {
	for ci, rc := range fe.C.ReadOnly {
		var prm *ssa.Parameter
		for _, p := range fe.Fn.Params {
			if p.Name() == rc.Local {
				prm = p
			}
		}
		tags := rc.Tags
		if len(tags) == 0 {
			tags = []string{"support"}
		}
		if prm == nil {
			fe.errorf("readonly names parameter %q, which %s does not have", rc.Local, fe.Fn)
			continue
		}
		var from func(v ssa.Value, fn *ssa.Function, depth int) bool
		from = func(v ssa.Value, fn *ssa.Function, depth int) bool {
			if depth > 12 {
				return false
			}
			switch x := v.(type) {
			case *ssa.Parameter:
				return x == prm
			case *ssa.FieldAddr:
				return from(x.X, fn, depth+1)
			case *ssa.IndexAddr:
				return from(x.X, fn, depth+1)
			case *ssa.UnOp:
				if x.Op == token.MUL {
					// a load: of the parameter's own cell (naive form keeps parameters in allocs),
					// or of a pointer stored inside the object
					if a, ok := x.X.(*ssa.Alloc); ok {
						return a.Comment == rc.Local
					}
					return from(x.X, fn, depth+1)
				}
			case *ssa.FreeVar:
				// captured variable of a function literal: by name
				return x.Name() == rc.Local
			}
			return false
		}
		funcs := append([]*ssa.Function{fe.Fn}, fe.Fn.AnonFuncs...)
		bad := ""
		for _, f := range funcs {
			for _, b := range f.Blocks {
				for _, in := range b.Instrs {
					st, ok := in.(*ssa.Store)
					if !ok {
						continue
					}
					if a, isAlloc := st.Addr.(*ssa.Alloc); isAlloc && a.Comment == rc.Local {
						continue // re-assigning the parameter variable itself is harmless
					}
					if from(st.Addr, f, 0) && bad == "" {
						bad = fe.pos(in.Pos())
					}
				}
			}
		}
		status, raw := "unsat", "no store through "+rc.Local
		if bad != "" {
			status, raw = "sat", "the function stores through "+rc.Local+" at "+bad+", which its contract declares read-only"
		}
		fe.nObl++
		fe.emit(&Obligation{Func: shortFn(fe.Fn.String()), Name: fe.oblName(fmt.Sprintf("readonly#%d/%s", ci+1, rc.Local)), Kind: "frame", Tags: tags,
			Text: raw, Pos: fe.pos(fe.Fn.Pos()), Result: SolverResult{Status: status, Solver: "syntactic", Raw: raw}})
	}
}

// checkThreadCallees: a function that may run on a request thread calls only such
// functions among those under contract in /repo (static).
func (fe *FnExec) checkThreadCallees() {
	if fe.C.Thread != "any" {
		return
	}
	seen := map[string]bool{}
	blocks := append([]*ssa.BasicBlock(nil), fe.Fn.Blocks...)
	for bi := 0; bi < len(blocks); bi++ {
		b := blocks[bi]
		for _, in := range b.Instrs {
			call, ok := in.(ssa.CallInstruction)
			if !ok {
				continue
			}
			f, ok := call.Common().Value.(*ssa.Function)
			if !ok || f.Pkg == nil || !strings.HasPrefix(f.Pkg.Pkg.Path(), "github.com/TheCacophonyProject/thermal-recorder") || seen[f.String()] {
				continue
			}
			seen[f.String()] = true
			if _, isCall := in.(*ssa.Call); isCall && fe.inlinableFn(f) {
				// executed in place: its accesses are checked on this function's paths
				blocks = append(blocks, f.Blocks...)
				continue
			}
			cc := fe.P.Contracts[f.String()]
			status, raw := "unsat", "callee may run on a request thread"
			if cc == nil || cc.Thread != "any" {
				status, raw = "sat", "a function that may run on a request thread calls "+shortFn(f.String())+", which is not declared 'thread any' (its accesses are not checked against the lock discipline)"
			}
			fe.nObl++
			fe.emit(&Obligation{Func: shortFn(fe.Fn.String()), Name: fe.oblName("guard/callee:" + f.Name()), Kind: "guard", Tags: []string{"C16"},
				Text: raw, Pos: fe.pos(in.Pos()), Result: SolverResult{Status: status, Solver: "syntactic", Raw: raw}})
		}
	}
}

// ---------------------------------------------------------------------------
// refinement of interface contracts ("implements")

func (fe *FnExec) implInfo() (ic *FuncContract, it types.Type, tags []string) {
	im := fe.C.Impl
	it, err := fe.P.resolveType(im.Iface, fe.C.Pkg)
	if err != nil {
		fe.fail("implements %s: %v", im.Iface, err)
	}
	if _, ok := it.Underlying().(*types.Interface); !ok {
		fe.fail("implements %s: not an interface type", im.Iface)
	}
	ic = fe.P.Contracts["iface "+typeKey(it)+"."+fe.Fn.Name()]
	if ic == nil {
		fe.fail("implements %s: the interface has no contract for method %s", im.Iface, fe.Fn.Name())
	}
	if len(fe.Fn.Params) == 0 || !types.Implements(fe.Fn.Params[0].Type(), it.Underlying().(*types.Interface)) {
		fe.fail("implements %s: receiver type does not implement it", im.Iface)
	}
	tags = im.Tags
	if len(tags) == 0 {
		tags = []string{"support"}
	}
	return
}

// implFuncType: "implements pkg.FuncType inv _" names a function type instead of an
// interface: the function is one of the values that flow into variables of that
// type, so the function type's abstract precondition must imply its own.
func (fe *FnExec) implFuncType() (*FuncContract, bool) {
	t, err := fe.P.resolveType(fe.C.Impl.Iface, fe.C.Pkg)
	if err != nil {
		return nil, false
	}
	if _, ok := t.Underlying().(*types.Signature); !ok {
		return nil, false
	}
	return fe.P.Contracts["functype "+typeKey(t)], true
}

func (fe *FnExec) refineFuncType(st *State) {
	fc, _ := fe.implFuncType()
	if fc == nil {
		fe.fail("implements %s: the function type has no contract", fe.C.Impl.Iface)
	}
	tags := fe.C.Impl.Tags
	if len(tags) == 0 {
		tags = []string{"support"}
	}
	env := fe.env(st, st)
	vars := map[string]Binding{}
	vars["fnval"] = Binding{Scalar{fe.funcRef(fe.Fn)}, fe.Fn.Signature}
	for i, prm := range fe.Fn.Params {
		n := prm.Name()
		if i < len(fc.ParamNames) && fc.ParamNames[i] != "_" {
			n = fc.ParamNames[i]
		}
		vars[n] = Binding{st.vals[prm], prm.Type()}
	}
	env.vars = vars
	env.pkg = fc.Pkg
	for i, cl := range fc.Requires {
		t, err := env.evalBool(cl.E)
		if err != nil {
			fe.fail("implements: function type requires#%d (%s): %v", i+1, cl.Text, err)
		}
		st.assume(t, "function type requires: "+cl.Text)
	}
	fe.cover(st, "refine-entry", "function type precondition satisfiable")
	own := fe.env(st, st)
	for i, cl := range fe.C.Requires {
		t, err := own.evalBool(cl.E)
		if err != nil {
			fe.fail("requires#%d (%s): %v", i+1, cl.Text, err)
		}
		fe.assert(st, t, fmt.Sprintf("refine/requires#%d", i+1), "requires", tags,
			"precondition of "+fe.C.Impl.Iface+" ==> "+cl.Text, fe.Fn.Pos())
	}
}

// implEnv: the interface contract's names bound to this method's receiver (boxed),
// parameters (by position) and, when given, results.
func (fe *FnExec) implEnv(st *State, old *State, ic *FuncContract, it types.Type, results []SVal) *Env {
	env := fe.env(st, old)
	vars := map[string]Binding{}
	recv := fe.Fn.Params[0]
	rv := st.vals[recv]
	rn := ic.RecvName
	if rn == "" {
		rn = "recv"
	}
	vars[rn] = Binding{IfaceV{fe.typeCodeOf(recv.Type()), refOf(rv)}, it}
	for i, prm := range fe.Fn.Params[1:] {
		n := prm.Name()
		if i < len(ic.ParamNames) && ic.ParamNames[i] != "_" {
			n = ic.ParamNames[i]
		}
		vars[n] = Binding{st.vals[prm], prm.Type()}
	}
	for _, gp := range ic.GhostParams {
		if b, ok := fe.implGhost[gp]; ok {
			vars[gp] = b
			continue
		}
		v, err := st.freshValue("gp."+gp, types.Typ[types.Int])
		if err != nil {
			fe.fail("implements: ghost parameter %s: %v", gp, err)
		}
		if fe.implGhost == nil {
			fe.implGhost = map[string]Binding{}
		}
		fe.implGhost[gp] = Binding{v, types.Typ[types.Int]}
		vars[gp] = fe.implGhost[gp]
	}
	res := fe.Fn.Signature.Results()
	for i, v := range results {
		if i < len(ic.ResNames) {
			vars[ic.ResNames[i]] = Binding{v, res.At(i).Type()}
		}
		vars[fmt.Sprintf("result%d", i)] = Binding{v, res.At(i).Type()}
		if len(results) == 1 {
			vars["result"] = Binding{v, res.At(i).Type()}
		}
	}
	env.vars = vars
	return env
}

func (fe *FnExec) implInvTerm(st *State, old *State) Term {
	names := paramNames(fe.Fn, fe.C)
	e, err := parseExpr(names[0] + "." + fe.C.Impl.Inv + "()")
	if err != nil {
		fe.fail("implements inv %s: %v", fe.C.Impl.Inv, err)
	}
	t, err := fe.env(st, old).evalBool(e)
	if err != nil {
		fe.fail("implements inv %s: %v", fe.C.Impl.Inv, err)
	}
	return t
}

func (fe *FnExec) refineRequires(st *State) {
	ic, it, tags := fe.implInfo()
	ienv := fe.implEnv(st, st, ic, it, nil)
	for i, cl := range ic.Requires {
		t, err := ienv.evalBool(cl.E)
		if err != nil {
			fe.fail("implements: interface requires#%d (%s): %v", i+1, cl.Text, err)
		}
		st.assume(t, "interface requires: "+cl.Text)
	}
	st.assume(Neq(refOf(st.vals[fe.Fn.Params[0]]), IntLit(0)), "receiver of a dynamic call is not nil")
	st.assume(fe.implInvTerm(st, st), "coupling invariant "+fe.C.Impl.Inv)
	fe.cover(st, "refine-entry", "interface precondition and coupling invariant satisfiable")
	own := fe.env(st, st)
	for i, cl := range fe.C.Requires {
		t, err := own.evalBool(cl.E)
		if err != nil {
			fe.fail("requires#%d (%s): %v", i+1, cl.Text, err)
		}
		fe.assert(st, t, fmt.Sprintf("refine/requires#%d", i+1), "requires", tags,
			"interface precondition + "+fe.C.Impl.Inv+" ==> "+cl.Text, fe.Fn.Pos())
	}
	fe.refineEncapsulation(tags)
}

// refineEncapsulation: the receiver type's fields are stored to only by functions
// under (non-trusted) contract - so the coupling invariant cannot be broken behind
// the verifier's back.
func (fe *FnExec) refineEncapsulation(tags []string) {
	pt, ok := fe.Fn.Params[0].Type().Underlying().(*types.Pointer)
	if !ok {
		return
	}
	owner := typeKey(pt.Elem())
	var bad []string
	for name, f := range fe.P.Funcs {
		if f.Pkg == nil || f.Pkg != fe.Fn.Pkg || f.Synthetic != "" {
			continue
		}
		stores := false
		for _, b := range f.Blocks {
			for _, in := range b.Instrs {
				if s, ok := in.(*ssa.Store); ok {
					if fa, ok := s.Addr.(*ssa.FieldAddr); ok {
						if p2, ok := fa.X.Type().Underlying().(*types.Pointer); ok && typeKey(p2.Elem()) == owner {
							stores = true
						}
					}
				}
			}
		}
		if !stores {
			continue
		}
		if cc := fe.P.Contracts[name]; cc == nil || cc.Mode == "trusted" {
			bad = append(bad, shortFn(name))
		}
	}
	sort.Strings(bad)
	status, raw := "unsat", "every function storing to a field of "+owner+" is under contract"
	if len(bad) > 0 {
		status, raw = "sat", "fields of "+owner+" are stored to by functions without a verified contract: "+strings.Join(bad, ", ")
	}
	fe.nObl++
	fe.emit(&Obligation{Func: shortFn(fe.Fn.String()), Name: fe.oblName("refine/encapsulation"), Kind: "frame", Tags: tags,
		Text: raw, Pos: fe.pos(fe.Fn.Pos()), Result: SolverResult{Status: status, Solver: "syntactic", Raw: raw}})
}

// refineEnsures: at a return, the coupling invariant holds again and the interface
// method's [proto] postconditions hold for this implementation.
func (fe *FnExec) refineEnsures(st *State, results []SVal, pos token.Pos) {
	if _, isFuncType := fe.implFuncType(); isFuncType {
		return
	}
	ic, it, tags := fe.implInfo()
	fe.assert(st, fe.implInvTerm(st, fe.entry), "refine/inv", "ensures", tags, "coupling invariant "+fe.C.Impl.Inv+" re-established", pos)
	ienv := fe.implEnv(st, fe.entry, ic, it, results)
	for i, cl := range ic.Ensures {
		proto := false
		for _, t := range cl.Tags {
			if t == "proto" {
				proto = true
			}
		}
		if !proto {
			continue
		}
		t, err := ienv.evalBool(cl.E)
		if err != nil {
			fe.fail("implements: interface ensures#%d (%s): %v", i+1, cl.Text, err)
		}
		fe.assert(st, t, fmt.Sprintf("refine/ensures#%d", i+1), "ensures", tags, "interface postcondition: "+cl.Text, pos)
	}
}

// makeGhosts: `call make#k ghost owner = e` / `rowof = e` give the immutable ghost
// attributes of the array allocated by the k-th make of the function. They are set
// once, at allocation, on a reference no earlier fact can mention.
func (fe *FnExec) makeGhosts(st *State, x *ssa.MakeSlice, arr Term) {
	ord := 0
	for _, b := range fe.Fn.Blocks {
		for _, in := range b.Instrs {
			if _, ok := in.(*ssa.MakeSlice); ok {
				ord++
			}
			if in == ssa.Instruction(x) {
				goto found
			}
		}
	}
found:
	for i, cg := range fe.C.CallGhosts {
		if cg.Callee != "make" || cg.Ordinal != ord || cg.Kind != "ghost" {
			continue
		}
		if cg.Name != "owner" && cg.Name != "rowof" {
			fe.fail("call make#%d ghost %s: only owner and rowof can be set at allocation", ord, cg.Name)
		}
		fe.usedGhosts[i] = true
		lenv := fe.localEnv(st, fe.entry)
		v, _, err := lenv.eval(cg.Val)
		if err != nil {
			fe.fail("call make#%d ghost %s: %v", ord, cg.Name, err)
		}
		st.assume(Eq(App(SInt, cg.Name, arr), refOf(v)), "ghost attribute of the fresh array")
	}
}

var benignCalleePkgs = map[string]bool{"log": true, "fmt": true, "errors": true, "strings": true, "strconv": true, "sync": true}
var benignCallees = map[string]bool{"time.Now": true, "path/filepath.Join": true, "path.Join": true, "path/filepath.Base": true, "path/filepath.Dir": true, "path/filepath.Ext": true}

// checkCallees: call whitelist (static). Effect-free helpers are always allowed.
func (fe *FnExec) checkCallees() {
	if len(fe.C.Callees) == 0 {
		return
	}
	allowed := map[string]bool{}
	for _, c := range fe.C.Callees {
		allowed[c] = true
	}
	tags := fe.C.CalleesTags
	if len(tags) == 0 {
		tags = []string{"support"}
	}
	seen := map[string]bool{}
	// a helper of this repository that has no contract of its own is transparent:
	// what counts is what the helper calls (so that extracting a helper raises nothing)
	blocks := append([]*ssa.BasicBlock(nil), fe.Fn.Blocks...)
	expanded := map[*ssa.Function]bool{fe.Fn: true}
	for bi := 0; bi < len(blocks); bi++ {
		b := blocks[bi]
		for _, in := range b.Instrs {
			call, ok := in.(ssa.CallInstruction)
			if !ok {
				continue
			}
			c := call.Common()
			if _, isB := c.Value.(*ssa.Builtin); isB {
				continue
			}
			short := calleeShortName(c)
			if f, ok := c.Value.(*ssa.Function); ok && f.Pkg != nil {
				if benignCalleePkgs[f.Pkg.Pkg.Path()] || benignCallees[f.Pkg.Pkg.Path()+"."+f.Name()] {
					continue
				}
				if !allowed[short] && !c.IsInvoke() && len(f.Blocks) > 0 && fe.P.Contracts[f.String()] == nil &&
					strings.HasPrefix(f.Pkg.Pkg.Path(), "github.com/TheCacophonyProject/thermal-recorder") {
					if !expanded[f] {
						expanded[f] = true
						blocks = append(blocks, f.Blocks...)
					}
					continue
				}
			}
			if seen[short] {
				continue
			}
			seen[short] = true
			status := "unsat"
			if !allowed[short] {
				status = "sat"
			}
			fe.nObl++
			fe.emit(&Obligation{Func: shortFn(fe.Fn.String()), Name: fe.oblName("callees/" + short), Kind: "frame", Tags: tags,
				Text: "calls " + short + "; declared callees: " + strings.Join(fe.C.Callees, ", "), Pos: fe.pos(in.Pos()),
				Result: SolverResult{Status: status, Solver: "syntactic", Raw: "static call whitelist: " + short}})
		}
	}
}

// checkOnlyClauses: static resource discipline. Every call that receives the named
// local (loaded from its cell, possibly converted to an interface) must be one of
// the listed sites.
func (fe *FnExec) checkOnlyClauses() {
	for ci, oc := range fe.C.Only {
		allowed := map[string]bool{}
		for _, s := range oc.Sites {
			allowed[s] = true
		}
		var derives func(v ssa.Value, depth int) bool
		derives = func(v ssa.Value, depth int) bool {
			if depth > 6 {
				return false
			}
			switch x := v.(type) {
			case *ssa.UnOp:
				if a, ok := x.X.(*ssa.Alloc); ok && a.Comment == oc.Local {
					return true
				}
			case *ssa.MakeInterface:
				return derives(x.X, depth+1)
			case *ssa.FieldAddr:
				// an embedded part of the object (promoted methods take its address)
				return derives(x.X, depth+1)
			case *ssa.ChangeInterface:
				return derives(x.X, depth+1)
			case *ssa.ChangeType:
				return derives(x.X, depth+1)
			case *ssa.Alloc:
				return x.Comment == oc.Local
			}
			return false
		}
		found := false
		for _, b := range fe.Fn.Blocks {
			for _, in := range b.Instrs {
				site := ""
				switch x := in.(type) {
				case *ssa.DebugRef, *ssa.MakeInterface, *ssa.ChangeInterface, *ssa.ChangeType, *ssa.FieldAddr:
					continue
				case ssa.CallInstruction:
					c := x.Common()
					uses := false
					if c.IsInvoke() || !isStaticCallee(c) {
						uses = derives(c.Value, 0)
					}
					for _, a := range c.Args {
						if derives(a, 0) {
							uses = true
						}
					}
					if !uses {
						continue
					}
					site = fmt.Sprintf("%s#%d", calleeShortName(c), fe.callOrd[in])
				case *ssa.Send:
					if !derives(x.X, 0) && !derives(x.Chan, 0) {
						continue
					}
					site = fmt.Sprintf("send#%d", fe.callOrd[in])
				case *ssa.Store:
					// a store into a field or element of the local (a struct or array variable):
					// allowed only where the clause lists "fieldstore"
					if _, isAlloc := x.Addr.(*ssa.Alloc); !isAlloc && derives(x.Addr, 0) {
						site = "fieldstore"
						break
					}
					// assigning to the local is its definition; storing its value elsewhere lets it escape
					if a, ok := x.Addr.(*ssa.Alloc); ok && a.Comment == oc.Local && !derives(x.Val, 0) {
						continue
					}
					if !derives(x.Val, 0) {
						continue
					}
					if a, ok := x.Addr.(*ssa.Alloc); ok && a.Comment == oc.Local {
						continue
					}
					site = "store"
				case *ssa.UnOp:
					if a, ok := x.X.(*ssa.Alloc); ok && a.Comment == oc.Local {
						continue // the load that produces the value
					}
					if _, isFA := x.X.(*ssa.FieldAddr); isFA && x.Op == token.MUL && derives(x.X, 0) {
						continue // reading a field of the local
					}
					if !derives(x.X, 0) {
						continue
					}
					site = "use:" + x.Op.String()
					if x.Op == token.ARROW {
						site = fmt.Sprintf("recv#%d", fe.callOrd[in])
					}
				default:
					uses := false
					for _, op := range in.Operands(nil) {
						if op != nil && *op != nil && derives(*op, 0) {
							if _, isAlloc := (*op).(*ssa.Alloc); isAlloc {
								continue
							}
							uses = true
						}
					}
					if !uses {
						continue
					}
					site = "use:" + strings.TrimPrefix(fmt.Sprintf("%T", in), "*ssa.")
					if _, isSel := in.(*ssa.Select); isSel {
						site = fmt.Sprintf("select#%d", fe.callOrd[in])
					}
				}
				found = true
				tags := oc.Tags
				if len(tags) == 0 {
					tags = []string{"support"}
				}
				status := "unsat"
				if !allowed[site] {
					status = "sat"
				}
				fe.nObl++
				fe.emit(&Obligation{Func: shortFn(fe.Fn.String()), Name: fe.oblName(fmt.Sprintf("only#%d/%s", ci+1, site)), Kind: "frame", Tags: tags,
					Text: "'" + oc.Local + "' may only be handed to " + strings.Join(oc.Sites, ", ") + " (found: " + site + ")", Pos: fe.pos(in.Pos()),
					Result: SolverResult{Status: status, Solver: "syntactic", Raw: "static resource discipline: " + site + " uses " + oc.Local}})
			}
		}
		if !found {
			fe.errorf("only-clause names local %q but no call receives it", oc.Local)
		}
	}
}

func contractTags(c *FuncContract) []string {
	set := map[string]bool{}
	if c.Thread == "any" {
		set["C16"] = true
	}
	for _, t := range c.Tags {
		set[t] = true
	}
	add := func(cls []Clause) {
		for _, cl := range cls {
			for _, t := range cl.Tags {
				if t != "support" {
					set[t] = true
				}
			}
		}
	}
	add(c.Requires)
	add(c.Ensures)
	add(c.Checks)
	for _, oc := range c.Only {
		for _, t := range oc.Tags {
			if t != "support" {
				set[t] = true
			}
		}
	}
	for _, t := range c.CalleesTags {
		if t != "support" {
			set[t] = true
		}
	}
	for _, rc := range c.ReadOnly {
		for _, t := range rc.Tags {
			if t != "support" {
				set[t] = true
			}
		}
	}
	for _, cg := range c.CallGhosts {
		for _, t := range cg.Tags {
			if t != "support" {
				set[t] = true
			}
		}
	}
	for _, l := range c.LoopInv {
		add(l)
	}
	var out []string
	for t := range set {
		out = append(out, t)
	}
	sort.Strings(out)
	return out
}

func paramNames(fn *ssa.Function, c *FuncContract) []string {
	var names []string
	for _, p := range fn.Params {
		names = append(names, p.Name())
	}
	if c != nil {
		off := 0
		if fn.Signature.Recv() != nil {
			if c.RecvName != "" {
				names[0] = c.RecvName
			}
			off = 1
		}
		if c.HasParams {
			for i, n := range c.ParamNames {
				if off+i < len(names) && n != "_" {
					names[off+i] = n
				}
			}
		}
	}
	return names
}

func resultNames(fn *ssa.Function, c *FuncContract) []string {
	res := fn.Signature.Results()
	names := make([]string, res.Len())
	for i := 0; i < res.Len(); i++ {
		names[i] = res.At(i).Name()
	}
	if c != nil {
		for i, n := range c.ResNames {
			if i < len(names) {
				names[i] = n
			}
		}
	}
	return names
}

// env builds the evaluation environment of the function's own contract.
func (fe *FnExec) env(st *State, old *State) *Env {
	vars := map[string]Binding{}
	for k, v := range fe.params {
		vars[k] = v
	}
	pkg := ""
	if fe.Fn.Pkg != nil {
		pkg = fe.Fn.Pkg.Pkg.Path()
	}
	return &Env{fe: fe, st: st, old: old, vars: vars, pkg: pkg, qn: &fe.qn}
}

func (fe *FnExec) numberSites() {
	calls := map[string]int{}
	visited := map[*ssa.Function]bool{fe.Fn: true}
	var number func(f *ssa.Function)
	number = func(f *ssa.Function) {
		for _, b := range f.Blocks {
			for _, in := range b.Instrs {
				switch x := in.(type) {
				case ssa.CallInstruction:
					// a helper executed in place (12.15): its call sites are numbered
					// where the helper is called, so that `call WriteFrame#1 ...` still
					// finds the call after it has been moved into a helper
					if c, ok := in.(*ssa.Call); ok && !c.Common().IsInvoke() {
						if h, ok := c.Common().Value.(*ssa.Function); ok && !visited[h] && fe.inlinableFn(h) {
							visited[h] = true
							number(h)
						}
					}
					name := calleeShortName(x.Common())
					calls[name]++
					fe.callOrd[in] = calls[name]
				default:
					if name := pseudoCallName(in); name != "" {
						calls[name]++
						fe.callOrd[in] = calls[name]
					}
				}
			}
		}
	}
	number(fe.Fn)
}

// pseudoCallName: channel operations appear in the call trace as "send", "recv"
// and "select" (permissive mode only).
func pseudoCallName(in ssa.Instruction) string {
	switch x := in.(type) {
	case *ssa.Send:
		return "send"
	case *ssa.MakeChan:
		return "makechan"
	case *ssa.Select:
		return "select"
	case *ssa.UnOp:
		if x.Op == token.ARROW {
			return "recv"
		}
	}
	return ""
}

// pseudoCall records a channel operation in the call trace, under its name and
// under name#site so that loop invariants can count one static site.
func (fe *FnExec) pseudoCall(st *State, in ssa.Instruction, name string, args []SVal, argT []types.Type, res SVal, resT types.Type) {
	ord := fe.callOrd[in]
	st.countCall(name)
	st.countCall(fmt.Sprintf("%s#%d", name, ord))
	st.callSeq++
	rec := callRec{pre: st.snapshot(), seq: st.callSeq, args: args, argT: argT, res: res, resT: resT}
	st.callLog[fmt.Sprintf("%s#%d", name, st.callCnt[name])] = rec
	st.callLog[fmt.Sprintf("%s@%d", name, ord)] = rec
	// call-site assertions of the contract: call send#k assert ...
	vars := map[string]Binding{}
	for i, a := range args {
		vars[fmt.Sprintf("$%d", i)] = Binding{a, argT[i]}
	}
	if res != nil {
		vars["$result"] = Binding{res, resT}
	}
	fe.callSiteAsserts(st, in, calleeInfo{short: name}, ord, fmt.Sprintf("%s#%d", name, ord), vars, nil)
	fe.applyTallies(st, name, ord, vars)
}

// applyTallies: "call f#k tally name if cond" - a user-named counter (read with
// ncalls("name")) that goes up by one each time site f#k completes with cond true.
func (fe *FnExec) applyTallies(st *State, callee string, ord int, vars map[string]Binding) {
	for i, cg := range fe.C.CallGhosts {
		if cg.Callee != callee || cg.Ordinal != ord || cg.Kind != "tally" {
			continue
		}
		fe.usedGhosts[i] = true
		lenv := fe.localEnv(st, fe.entry)
		for k, v := range vars {
			if strings.HasPrefix(k, "$") {
				lenv.vars[k] = v
			}
		}
		t, err := lenv.evalBool(cg.Val)
		if err != nil {
			fe.fail("call %s#%d tally %s (%s): %v", cg.Callee, cg.Ordinal, cg.Name, cg.Text, err)
		}
		cur := st.numCalls(cg.Name)
		st.callNum[cg.Name] = st.define("tally."+cg.Name, Ite(t, Add(cur, IntLit(1)), cur))
	}
}

// tallyNamesAt: counters a loop body can change through the given site.
func (fe *FnExec) tallyNamesAt(callee string, ord int) []string {
	var out []string
	for _, cg := range fe.C.CallGhosts {
		if cg.Callee == callee && cg.Ordinal == ord && cg.Kind == "tally" {
			out = append(out, cg.Name)
		}
	}
	return out
}

func calleeShortName(c *ssa.CallCommon) string {
	if c.IsInvoke() {
		return c.Method.Name()
	}
	switch v := c.Value.(type) {
	case *ssa.Function:
		return v.Name()
	case *ssa.Builtin:
		return v.Name()
	case *ssa.MakeClosure:
		return v.Fn.Name()
	}
	// function value loaded from a field
	if u, ok := c.Value.(*ssa.UnOp); ok {
		if fa, ok := u.X.(*ssa.FieldAddr); ok {
			st := fa.X.Type().Underlying().(*types.Pointer).Elem().Underlying().(*types.Struct)
			return st.Field(fa.Field).Name()
		}
	}
	return "funcvalue"
}

// ---------------------------------------------------------------------------
// obligations

func (fe *FnExec) oblName(kind string) string {
	if fe.Fn == nil {
		return fe.name + "/" + kind
	}
	return shortFn(fe.Fn.String()) + "/" + kind
}

// verifyLemma discharges a closed contract-level lemma (no code involved).
func verifyLemma(p *Program, l LemmaDecl, emit func(*Obligation)) []string {
	fe := &FnExec{P: p, C: &FuncContract{}, preludeSet: map[string]bool{}, initHeap: map[string]Term{}, emit: emit,
		strLits: map[string]Term{}, typeCodes: map[string]int{}, name: "lemma " + l.Name}
	st := &State{fe: fe, heap: map[string]Term{}, locals: nil, binds: map[string]Binding{}, facts: map[string]bool{}, callCnt: map[string]int{}, callNum: map[string]Term{}, callLog: map[string]callRec{}}
	fe.addPrelude("now0", "(declare-const now0 Int)")
	st.now = Term{"now0", SInt}
	env := &Env{fe: fe, st: st, vars: map[string]Binding{}, pkg: l.Pkg, qn: &fe.qn}
	t, err := env.evalBool(l.E)
	if err != nil {
		return []string{"lemma " + l.Name + ": " + err.Error()}
	}
	tags := l.Tags
	if len(tags) == 0 {
		tags = []string{"support"}
	}
	hdr := "lemma " + l.Name + ": " + l.Text
	fe.nObl++
	emit(&Obligation{Func: "lemma " + l.Name, Name: "lemma " + l.Name, Kind: "lemma", Tags: tags, Text: l.Text, Query: fe.buildQuery(st, t, false, hdr)})
	return nil
}

func (fe *FnExec) assert(st *State, goal Term, name, kind string, tags []string, text string, pos token.Pos) {
	if st.dead {
		return
	}
	if goal.S == "true" {
		// trivially discharged; still counted so that clause coverage is visible
		fe.nObl++
		fe.emit(&Obligation{Func: shortFn(fe.Fn.String()), Name: fe.oblName(name), Kind: kind, Tags: tags, Path: strings.Join(st.trace, " "),
			Text: text, Pos: fe.pos(pos), Result: SolverResult{Status: "unsat", Solver: "syntactic"}})
		return
	}
	if st.facts[goal.S] {
		fe.nObl++
		fe.emit(&Obligation{Func: shortFn(fe.Fn.String()), Name: fe.oblName(name), Kind: kind, Tags: tags, Path: strings.Join(st.trace, " "),
			Text: text, Pos: fe.pos(pos), Result: SolverResult{Status: "unsat", Solver: "syntactic"}})
		return
	}
	fe.nObl++
	hdr := fmt.Sprintf("obligation %s\nkind %s tags %v\nclause: %s\npath: %s", fe.oblName(name), kind, tags, text, strings.Join(st.trace, " "))
	o := &Obligation{Func: shortFn(fe.Fn.String()), Name: fe.oblName(name), Kind: kind, Tags: tags, Path: strings.Join(st.trace, " "),
		Text: text, Pos: fe.pos(pos), Query: fe.buildQuery(st, goal, false, hdr), Watch: fe.watch}
	fe.emit(o)
	// lock-discipline obligations are never needed as lemmas for what follows; not assuming
	// them keeps the known findings among them from colouring other properties' proofs
	lockOnly := kind == "guard" || (len(tags) == 1 && tags[0] == "C16")
	if !fe.noAssume && !lockOnly && !(fe.Fn != nil && unmaskNames[fe.Fn.String()][fe.oblName(name)]) {
		st.assume(goal, "proved: "+name)
	}
}

// unmaskNames: obligations (by function and name) that failed in an earlier pass and
// are therefore not assumed for the rest of their path in a re-run - an assumed false
// fact would make every later obligation of the path vacuously true.
var unmaskNames = map[string]map[string]bool{}

func (fe *FnExec) cover(st *State, name, text string) {
	hdr := fmt.Sprintf("cover %s (expect sat): %s", fe.oblName("cover/"+name), text)
	o := &Obligation{Func: shortFn(fe.Fn.String()), Name: fe.oblName("cover/" + name), Kind: "cover", Tags: []string{"support"},
		Path: strings.Join(st.trace, " "), Text: text, Query: fe.buildQuery(st, TTrue, true, hdr), Cover: true}
	fe.emit(o)
}

func (fe *FnExec) safety(st *State, goal Term, in ssa.Instruction, what string) {
	if fe.Mode == "permissive-nosafety" {
		return
	}
	fe.assert(st, goal, fmt.Sprintf("safety/%s@%s", what, fe.siteName(in)), "safety", []string{"safety"}, what, in.Pos())
}

// siteName gives a position-independent name for an instruction: block.index
func (fe *FnExec) siteName(in ssa.Instruction) string {
	b := in.Block()
	pre := ""
	if in.Parent() != fe.Fn {
		pre = in.Parent().Name() + "."
	}
	for i, x := range b.Instrs {
		if x == in {
			return fmt.Sprintf("%sb%d.%d", pre, b.Index, i)
		}
	}
	return fmt.Sprintf("%sb%d", pre, b.Index)
}

// ---------------------------------------------------------------------------
// modifies

func (fe *FnExec) evalModLoc(env *Env, ml ModLoc) ([]modEntry, error) {
	switch ml.Kind {
	case "fresh":
		return nil, nil
	case "field", "all":
		x, xt, err := env.eval(ml.X)
		if err != nil {
			return nil, err
		}
		var ref Term
		var owner string
		var stt *types.Struct
		switch v := x.(type) {
		case IfaceV:
			ref, owner = v.Ref, typeKey(xt)
		case LocV:
			ref = v.Ref
			o, s, _, _ := structInfo(v.T)
			owner, stt = o, s
		case Scalar:
			ref = v.T
			o, s, _, ok := structInfo(xt)
			if !ok {
				return nil, fmt.Errorf("%s: not a struct reference", ml.Text)
			}
			owner, stt = o, s
		default:
			return nil, fmt.Errorf("%s: unsupported base %T", ml.Text, x)
		}
		var out []modEntry
		addField := func(name string, ft types.Type) error {
			return fe.addModField(env.st, &out, ref, owner, name, ft, ml.Text)
		}
		if ml.Kind == "field" {
			if stt != nil {
				for i := 0; i < stt.NumFields(); i++ {
					if stt.Field(i).Name() == ml.Name {
						return out, addField(ml.Name, stt.Field(i).Type())
					}
				}
			}
			if g := fe.P.ghostField(owner, ml.Name); g != nil {
				return out, addField(g.Name, g.Type)
			}
			// ghost state of an interface type, through an implementing pointer
			var ig *GhostField
			for _, k := range fe.P.ifaceGhostKeys() {
				if g := fe.P.Ghosts[k]; g.Name == ml.Name {
					if ig != nil {
						return nil, fmt.Errorf("%s: ghost field is ambiguous between interface types", ml.Text)
					}
					ig = g
				}
			}
			if ig != nil {
				return out, fe.addModField(env.st, &out, ref, ig.Owner, ig.Name, ig.Type, ml.Text)
			}
			return nil, fmt.Errorf("%s: no such field", ml.Text)
		}
		if stt != nil {
			for i := 0; i < stt.NumFields(); i++ {
				if err := addField(stt.Field(i).Name(), stt.Field(i).Type()); err != nil {
					return nil, err
				}
			}
		}
		for _, k := range fe.P.ghostKeysOf(owner) {
			g := fe.P.Ghosts[k]
			if err := addField(g.Name, g.Type); err != nil {
				return nil, err
			}
		}
		return out, nil
	case "elems":
		x, xt, err := env.eval(ml.X)
		if err != nil {
			return nil, err
		}
		sl, ok := x.(SliceV)
		if !ok {
			return nil, fmt.Errorf("elems(%s): not a slice", ml.Text)
		}
		et := xt.Underlying().(*types.Slice).Elem()
		cs, err := compsOf(et)
		if err != nil {
			return nil, err
		}
		var out []modEntry
		for _, c := range cs {
			out = append(out, modEntry{kind: "loc", key: elemKey(et) + c.suffix, ref: sl.Arr, text: ml.Text, sort: SArray(SInt, SArray(SInt, c.sort))})
		}
		return out, nil
	case "pix":
		x, _, err := env.eval(ml.X)
		if err != nil {
			return nil, err
		}
		return []modEntry{{kind: "pix", key: "elems:uint16", ref: refOf(x), text: ml.Text}}, nil
	case "any":
		// every location of a struct type's fields, or every element array of an element type
		t, err := fe.P.resolveType(ml.Name, env.pkg)
		if err != nil {
			return nil, err
		}
		keys := map[string]*Sort{}
		if isStructByValue(t) {
			fe.keysOfStruct(t, keys)
			for _, k := range fe.P.ghostKeysOf(typeKey(t)) {
				g := fe.P.Ghosts[k]
				fe.keysOfField(typeKey(t), g.Name, g.Type, keys)
			}
		} else if cs, err := compsOf(t); err == nil {
			for _, c := range cs {
				keys[elemKey(t)+c.suffix] = SArray(SInt, SArray(SInt, c.sort))
			}
		}
		var out []modEntry
		for _, k := range sortedKeys(keys) {
			out = append(out, modEntry{kind: "key", key: k, text: ml.Text, sort: keys[k]})
		}
		return out, nil
	}
	return nil, fmt.Errorf("unsupported modifies kind %s", ml.Kind)
}

func (fe *FnExec) addModField(st *State, out *[]modEntry, ref Term, owner, name string, ft types.Type, text string) error {
	if isStructByValue(ft) {
		er := st.embRef(ref, owner, name)
		s := ft.Underlying().(*types.Struct)
		o2 := typeKey(ft)
		for i := 0; i < s.NumFields(); i++ {
			if err := fe.addModField(st, out, er, o2, s.Field(i).Name(), s.Field(i).Type(), text); err != nil {
				return err
			}
		}
		for _, k := range fe.P.ghostKeysOf(o2) {
			g := fe.P.Ghosts[k]
			if err := fe.addModField(st, out, er, o2, g.Name, g.Type, text); err != nil {
				return err
			}
		}
		return nil
	}
	cs, err := compsOf(ft)
	if err != nil {
		// unsupported field types (arrays, ...) are simply not trackable
		return nil
	}
	for _, c := range cs {
		*out = append(*out, modEntry{kind: "loc", key: fieldKey(owner, name) + c.suffix, ref: ref, text: text, sort: SArray(SInt, c.sort)})
	}
	return nil
}

// allowedWrite: may the current function write location (key, ref)?
func (fe *FnExec) allowedWrite(st *State, key string, ref Term) Term {
	if fe.Mode == "permissive" || !fe.C.ModifiesSet && fe.Mode == "trusted" {
		return TTrue
	}
	alts := []Term{Ge(birth(ref), fe.entryNow)}
	for _, m := range fe.modset {
		switch m.kind {
		case "loc":
			if m.key == key {
				alts = append(alts, Eq(ref, m.ref))
			}
		case "pix":
			if key == m.key {
				alts = append(alts, Eq(App(SInt, "owner", ref), m.ref))
			}
		case "key":
			if key == m.key {
				return TTrue
			}
		}
	}
	return Or(alts...)
}

func (fe *FnExec) checkWrite(st *State, key string, ref Term, in ssa.Instruction, what string) {
	if fe.Mode == "permissive" {
		return
	}
	g := fe.allowedWrite(st, key, ref)
	fe.assert(st, g, fmt.Sprintf("frame/%s@%s", what, fe.siteName(in)), "frame", []string{"support"}, "write to "+key+" allowed by modifies", in.Pos())
}

// ---------------------------------------------------------------------------
// ghost assignments

func (fe *FnExec) ghostAssign(st *State, old *State, ga GhostAssign, extra map[string]Binding) {
	env := fe.env(st, old)
	for k, v := range extra {
		env.vars[k] = v
	}
	val, vt, err := env.eval(ga.Val)
	if err != nil {
		fe.fail("ghost assignment %s: %v", ga.Text, err)
	}
	switch tgt := ga.Target.(type) {
	case *EIdent:
		st.binds[tgt.Name] = Binding{val, vt}
	case *ESel:
		x, xt, err := env.eval(tgt.X)
		if err != nil {
			fe.fail("ghost assignment %s: %v", ga.Text, err)
		}
		var ref Term
		var owner string
		switch v := x.(type) {
		case IfaceV:
			ref, owner = v.Ref, typeKey(xt)
		case LocV:
			o, _, _, _ := structInfo(v.T)
			ref, owner = v.Ref, o
		case Scalar:
			o, _, _, ok := structInfo(xt)
			if !ok {
				fe.fail("ghost assignment %s: base is not a struct reference", ga.Text)
			}
			ref, owner = v.T, o
		default:
			fe.fail("ghost assignment %s: unsupported base", ga.Text)
		}
		g := fe.P.ghostField(owner, tgt.Name)
		if g == nil {
			// ghost state of an interface type, assigned through an implementing pointer
			for _, k := range fe.P.ifaceGhostKeys() {
				if ig := fe.P.Ghosts[k]; ig.Name == tgt.Name {
					if g != nil {
						fe.fail("ghost assignment %s: %s is ambiguous between interface types", ga.Text, tgt.Name)
					}
					g = ig
				}
			}
			if g != nil {
				owner = g.Owner
			}
		}
		if g == nil {
			fe.fail("ghost assignment %s: %s.%s is not a ghost field", ga.Text, owner, tgt.Name)
		}
		if fe.Mode != "permissive" {
			if cs, err := compsOf(g.Type); err == nil && len(cs) > 0 {
				key := fieldKey(owner, g.Name) + cs[0].suffix
				fe.assert(st, fe.allowedWrite(st, key, ref), "frame/ghost:"+strings.TrimSpace(ga.Text), "frame", []string{"support"}, "ghost write to "+key+" allowed by modifies", token.NoPos)
			}
		}
		// name the value before storing so that it refers to the pre-assignment state
		fl := flatten(val)
		for i := range fl {
			fl[i] = st.define("g."+tgt.Name, fl[i])
		}
		val = mkValLike(val, fl)
		if err := st.storeField(ref, owner, g.Name, g.Type, val); err != nil {
			fe.fail("ghost assignment %s: %v", ga.Text, err)
		}
	default:
		fe.fail("ghost assignment %s: unsupported target", ga.Text)
	}
}

func mkValLike(v SVal, fl []Term) SVal {
	switch v.(type) {
	case Scalar:
		return Scalar{fl[0]}
	case SliceV:
		return SliceV{fl[0], fl[1], fl[2], fl[3]}
	case IfaceV:
		return IfaceV{fl[0], fl[1]}
	}
	return v
}

// ---------------------------------------------------------------------------
// block execution

// inlineFrame: a call to a helper of the repository that has no contract of its own
// is executed in place (the verified text stays the code that runs; extracting a
// helper from a function under contract changes nothing for its obligations).
type inlineFrame struct {
	call  *ssa.Call
	fn    *ssa.Function
	block *ssa.BasicBlock
	idx   int
	prev  *ssa.BasicBlock
	ndef  int
}

const maxInlineDepth = 4

// inlinable: a static call to a function of this repository that has a body, no
// contract, no loop, no defer/go/closure, is not already being inlined.
func (fe *FnExec) inlinable(st *State, x *ssa.Call) *ssa.Function {
	c := x.Common()
	if c.IsInvoke() {
		return nil
	}
	f, ok := c.Value.(*ssa.Function)
	if !ok || !fe.inlinableFn(f) {
		return nil
	}
	if len(st.frames) >= maxInlineDepth {
		return nil
	}
	for _, fr := range st.frames {
		if fr.fn == f {
			return nil
		}
	}
	return f
}

// inlinableFn: the state-independent part of the decision.
func (fe *FnExec) inlinableFn(f *ssa.Function) bool {
	if f == nil || f.Pkg == nil || len(f.Blocks) == 0 || len(f.FreeVars) > 0 || f == fe.Fn || f.Synthetic != "" || f.Name() == "init" {
		return false
	}
	if fe.P.Opaque[shortFn(f.String())] {
		// declared `opaque` in a contract file: abstracted at every call (the clauses of
		// the permissive functions that call it are written against that abstraction)
		return false
	}
	if fe.Mode != "" && fe.Mode != "permissive" {
		return false
	}
	if !strings.HasPrefix(f.Pkg.Pkg.Path(), "github.com/TheCacophonyProject/thermal-recorder") {
		return false
	}
	if fe.P.Contracts[f.String()] != nil {
		return false
	}
	if ok, seen := fe.inlineOK[f]; seen {
		return ok
	}
	good := f.Recover == nil
	// acyclic control flow: look for a cycle explicitly
	color := map[*ssa.BasicBlock]int{}
	var dfs func(b *ssa.BasicBlock)
	dfs = func(b *ssa.BasicBlock) {
		color[b] = 1
		for _, s := range b.Succs {
			switch color[s] {
			case 0:
				dfs(s)
			case 1:
				good = false
			}
		}
		color[b] = 2
	}
	dfs(f.Blocks[0])
	for _, b := range f.Blocks {
		for _, in := range b.Instrs {
			switch in.(type) {
			case *ssa.Defer, *ssa.Go, *ssa.MakeClosure, *ssa.Select, *ssa.Send:
				good = false
			}
		}
	}
	if fe.inlineOK == nil {
		fe.inlineOK = map[*ssa.Function]bool{}
	}
	fe.inlineOK[f] = good
	return good
}

func (fe *FnExec) runBlock(st *State, b *ssa.BasicBlock) {
	fe.runBlockFrom(st, b, 0)
}

func (fe *FnExec) runBlockFrom(st *State, b *ssa.BasicBlock, start int) {
	for {
		if st.dead {
			return
		}
		// loop heads (of the function under contract; inlined helpers have no loops)
		if l := fe.loopOf[b]; l != nil && start == 0 && len(st.frames) == 0 {
			active := false
			for _, al := range st.loops {
				if al == l {
					active = true
				}
			}
			if active {
				// back edge: preservation
				fe.checkInvariants(st, l, "preserved")
				return
			}
			fe.checkInvariants(st, l, "entry")
			fe.havocLoop(st, l)
			fe.assumeInvariants(st, l)
			st.loops = append(st.loops, l)
		}
		// leaving loops
		for len(st.frames) == 0 && len(st.loops) > 0 && !st.loops[len(st.loops)-1].Body[b] {
			st.loops = st.loops[:len(st.loops)-1]
		}
		var next *ssa.BasicBlock
		nextStart := 0
	instrs:
		for idx := start; idx < len(b.Instrs); idx++ {
			in := b.Instrs[idx]
			switch x := in.(type) {
			case *ssa.RunDefers:
				if len(st.frames) > 0 {
					// an inlined helper has no defers of its own (see inlinable); the
					// pending ones belong to the function under contract
					continue
				}
				fe.step(st, in)
				if st.dead {
					return
				}
			case *ssa.Call:
				f := fe.inlinable(st, x)
				if f == nil {
					fe.step(st, in)
					if st.dead {
						return
					}
					continue
				}
				c := x.Common()
				if len(c.Args) != len(f.Params) {
					fe.fail("%s: call to %s: %d arguments for %d parameters", fe.pos(x.Pos()), f, len(c.Args), len(f.Params))
				}
				for i, a := range c.Args {
					st.vals[f.Params[i]] = fe.get(st, a)
				}
				st.frames = append(append([]inlineFrame(nil), st.frames...), inlineFrame{call: x, fn: f, block: b, idx: idx, prev: st.prev, ndef: len(st.defers)})
				next = f.Blocks[0]
				break instrs
			case *ssa.If:
				c := fe.get(st, x.Cond).(Scalar).T
				tb, fb := b.Succs[0], b.Succs[1]
				switch {
				case c.S == "true" || st.facts[c.S]:
					st.prev = b
					next = tb
				case c.S == "false" || st.facts[Not(c).S]:
					st.prev = b
					next = fb
				default:
					fe.paths++
					if fe.paths > fe.maxPaths {
						fe.fail("path budget of %d exceeded in %s", fe.maxPaths, fe.Fn)
					}
					s2 := st.clone()
					s2.prev = b
					s2.trace = append(s2.trace, fmt.Sprintf("b%d:F", b.Index))
					s2.assume(Not(c), fmt.Sprintf("branch b%d false (%s)", b.Index, fe.pos(x.Cond.Pos())))
					st.prev = b
					st.trace = append(st.trace, fmt.Sprintf("b%d:T", b.Index))
					st.assume(c, fmt.Sprintf("branch b%d true (%s)", b.Index, fe.pos(x.Cond.Pos())))
					fe.runBlock(st, tb)
					fe.runBlock(s2, fb)
					return
				}
			case *ssa.Jump:
				st.prev = b
				next = b.Succs[0]
			case *ssa.Return:
				if n := len(st.frames); n > 0 {
					fr := st.frames[n-1]
					st.frames = st.frames[:n-1]
					var vals []SVal
					for _, r := range x.Results {
						vals = append(vals, fe.get(st, r))
					}
					switch len(vals) {
					case 0:
					case 1:
						st.vals[fr.call] = vals[0]
					default:
						st.vals[fr.call] = TupleV{vals}
					}
					st.prev = fr.prev
					next = fr.block
					nextStart = fr.idx + 1
					break instrs
				}
				fe.doReturn(st, x)
				return
			case *ssa.Panic:
				if fe.C.PanicsIf != nil {
					// the contract says when the function is allowed to panic
					lenv := fe.localEnv(st, fe.entry)
					t, err := lenv.evalBool(fe.C.PanicsIf.E)
					if err != nil {
						fe.fail("panics if (%s): %v", fe.C.PanicsIf.Text, err)
					}
					fe.assert(st, t, "safety/panic@"+fe.siteName(in), "safety", []string{"safety"}, "panic only when: "+fe.C.PanicsIf.Text, in.Pos())
					return
				}
				fe.assert(st, TFalse, "safety/panic@"+fe.siteName(in), "safety", []string{"safety"}, "explicit panic unreachable", in.Pos())
				return
			default:
				fe.step(st, in)
				if st.dead {
					return
				}
			}
		}
		if next == nil {
			fe.fail("block %d of %s has no terminator", b.Index, fe.Fn)
		}
		b = next
		start = nextStart
	}
}

func (fe *FnExec) invClauses(l *Loop) []Clause {
	return fe.C.LoopInv[l.Ordinal]
}

func (fe *FnExec) loopEnv(st *State, l *Loop) *Env {
	env := fe.env(st, fe.entry)
	// local variables by name: current cell values. For shadowed names take the
	// declaration closest before the loop head.
	headPos := token.NoPos
	for _, in := range l.Head.Instrs {
		if in.Pos().IsValid() {
			headPos = in.Pos()
			break
		}
	}
	best := map[string]*ssa.Alloc{}
	for a := range st.locals {
		name := a.Comment
		if name == "" {
			continue
		}
		cur := best[name]
		if cur == nil {
			best[name] = a
			continue
		}
		// prefer the latest declaration not after the loop head
		if headPos.IsValid() {
			aOK, cOK := a.Pos() <= headPos, cur.Pos() <= headPos
			if aOK && (!cOK || a.Pos() > cur.Pos()) {
				best[name] = a
			} else if !aOK && !cOK && a.Pos() < cur.Pos() {
				best[name] = a
			}
		} else if a.Pos() < cur.Pos() {
			best[name] = a
		}
	}
	for name, a := range best {
		env.vars[name] = Binding{st.locals[a], a.Type().(*types.Pointer).Elem()}
	}
	fe.bindOrdinalLocals(st, env)
	return env
}

// bindOrdinalLocals makes every named local available as name_k (k-th local of
// that name in instruction order), for locals the default rule cannot tell apart
// (e.g. the hidden rangeindex variables of nested range loops).
func (fe *FnExec) bindOrdinalLocals(st *State, env *Env) {
	count := map[string]int{}
	for _, b := range fe.Fn.Blocks {
		for _, in := range b.Instrs {
			a, ok := in.(*ssa.Alloc)
			if !ok || a.Comment == "" {
				continue
			}
			count[a.Comment]++
			et := a.Type().(*types.Pointer).Elem()
			if v, isLocal := st.locals[a]; isLocal {
				env.vars[fmt.Sprintf("%s_%d", a.Comment, count[a.Comment])] = Binding{v, et}
			} else if v, ok := st.vals[a]; ok && isStructByValue(et) {
				// struct-typed local: a located value
				if r, isRef := v.(Scalar); isRef {
					lv := LocV{r.T, et, st}
					env.vars[fmt.Sprintf("%s_%d", a.Comment, count[a.Comment])] = Binding{lv, et}
					if _, taken := env.vars[a.Comment]; !taken {
						env.vars[a.Comment] = Binding{lv, et}
					}
				}
			}
		}
	}
}

func (fe *FnExec) checkInvariants(st *State, l *Loop, phase string) {
	env := fe.loopEnv(st, l)
	for i, cl := range fe.invClauses(l) {
		t, err := env.evalBool(cl.E)
		if err != nil {
			fe.fail("loop %d invariant#%d (%s): %v", l.Ordinal, i+1, cl.Text, err)
		}
		tags := cl.Tags
		if len(tags) == 0 {
			tags = []string{"support"}
		}
		fe.assert(st, t, fmt.Sprintf("loop#%d/invariant#%d/%s", l.Ordinal, i+1, phase), "invariant", tags, cl.Text, l.Head.Instrs[0].Pos())
	}
}

func (fe *FnExec) assumeInvariants(st *State, l *Loop) {
	env := fe.loopEnv(st, l)
	for i, cl := range fe.invClauses(l) {
		t, err := env.evalBool(cl.E)
		if err != nil {
			fe.fail("loop %d invariant#%d (%s): %v", l.Ordinal, i+1, cl.Text, err)
		}
		st.assume(t, fmt.Sprintf("loop %d invariant: %s", l.Ordinal, cl.Text))
	}
	if fe.Mode != "permissive" && len(fe.invClauses(l)) == 0 {
		fe.errorf("loop %d of %s has no invariant (strict mode)", l.Ordinal, fe.Fn)
	}
	fe.cover(st, fmt.Sprintf("loop#%d", l.Ordinal), "loop invariant satisfiable")
}

// havocLoop forgets everything the loop body may change.
func (fe *FnExec) havocLoop(st *State, l *Loop) {
	keys := map[string]*Sort{}
	allocates := false
	var blocks []*ssa.BasicBlock
	for b := range l.Body {
		blocks = append(blocks, b)
	}
	sort.Slice(blocks, func(i, j int) bool { return blocks[i].Index < blocks[j].Index })
	// helpers executed in place (12.15) inside the loop: their stores and calls are
	// effects of the loop body too
	{
		seenFn := map[*ssa.Function]bool{}
		for bi := 0; bi < len(blocks); bi++ {
			for _, in := range blocks[bi].Instrs {
				if c, ok := in.(*ssa.Call); ok {
					if f, ok := c.Common().Value.(*ssa.Function); ok && !c.Common().IsInvoke() && !seenFn[f] && fe.inlinableFn(f) {
						seenFn[f] = true
						blocks = append(blocks, f.Blocks...)
					}
				}
			}
		}
	}
	for _, b := range blocks {
		for _, in := range b.Instrs {
			if c, ok := in.(*ssa.Call); ok {
				if f, ok := c.Common().Value.(*ssa.Function); ok && !c.Common().IsInvoke() && fe.inlinableFn(f) {
					continue // its body is scanned instead
				}
			}
			switch x := in.(type) {
			case *ssa.Alloc:
				if isStructByValue(x.Type().(*types.Pointer).Elem()) {
					allocates = true
				}
			case *ssa.MakeSlice, *ssa.MakeMap, *ssa.MakeClosure:
				allocates = true
			case *ssa.Store:
				switch a := x.Addr.(type) {
				case *ssa.Alloc:
					if _, isLocal := st.locals[a]; isLocal {
						t := a.Type().(*types.Pointer).Elem()
						v, err := st.freshValue("loop."+a.Comment, t)
						if err != nil {
							fe.fail("havoc local %s: %v", a.Comment, err)
						}
						st.locals[a] = v
					} else if v, ok := st.vals[a]; ok {
						// struct-typed local object: havoc all its fields
						_ = v
						fe.keysOfStruct(a.Type().(*types.Pointer).Elem(), keys)
					} else {
						// cell allocated inside the loop; nothing to forget at the head
					}
				case *ssa.FieldAddr:
					stt := a.X.Type().Underlying().(*types.Pointer).Elem()
					s := stt.Underlying().(*types.Struct)
					f := s.Field(a.Field)
					fe.keysOfField(typeKey(stt), f.Name(), f.Type(), keys)
				case *ssa.IndexAddr:
					var et types.Type
					switch xt := a.X.Type().Underlying().(type) {
					case *types.Slice:
						et = xt.Elem()
					case *types.Pointer:
						et = xt.Elem().Underlying().(*types.Array).Elem()
					}
					if et != nil && !isStructByValue(et) {
						if cs, err := compsOf(et); err == nil {
							for _, c := range cs {
								keys[elemKey(et)+c.suffix] = SArray(SInt, SArray(SInt, c.sort))
							}
						}
					}
				case *ssa.Global:
					if cs, err := compsOf(a.Type().(*types.Pointer).Elem()); err == nil {
						for _, c := range cs {
							keys["global:"+a.String()+c.suffix] = SArray(SInt, c.sort)
						}
					}
				default:
					// store through a pointer value we cannot classify statically
					if pt, ok := x.Addr.Type().Underlying().(*types.Pointer); ok && isStructByValue(pt.Elem()) {
						fe.keysOfStruct(pt.Elem(), keys)
					}
				}
			case *ssa.Send, *ssa.Select, *ssa.MakeChan:
				for _, name := range append([]string{pseudoCallName(in), fmt.Sprintf("%s#%d", pseudoCallName(in), fe.callOrd[in])}, fe.tallyNamesAt(pseudoCallName(in), fe.callOrd[in])...) {
					nc := st.freshConst("ncalls."+name, SInt)
					st.assume(Ge(nc, st.numCalls(name)), "operations so far")
					st.callNum[name] = nc
				}
			case *ssa.UnOp:
				if x.Op == token.ARROW {
					for _, name := range append([]string{"recv", fmt.Sprintf("recv#%d", fe.callOrd[in])}, fe.tallyNamesAt("recv", fe.callOrd[in])...) {
						nc := st.freshConst("ncalls."+name, SInt)
						st.assume(Ge(nc, st.numCalls(name)), "operations so far")
						st.callNum[name] = nc
					}
				}
			case ssa.CallInstruction:
				// the number of calls made inside the loop is unknown at the head
				{
					name := calleeShortName(x.Common())
					if _, isB := x.Common().Value.(*ssa.Builtin); !isB || name == "close" {
						names := append([]string{name}, fe.tallyNamesAt(name, fe.callOrd[in])...)
						if q := qualifiedCallee(fe.calleeInfo(x.Common())); q != "" {
							names = append(names, q)
						}
						for _, nm := range names {
							nc := st.freshConst("ncalls."+nm, SInt)
							st.assume(Ge(nc, st.numCalls(nm)), "calls made so far")
							st.callNum[nm] = nc
						}
					}
				}
				alloc, ks := fe.calleeEffectKeys(st, x)
				if alloc {
					allocates = true
				}
				for k, s := range ks {
					keys[k] = s
				}
			}
		}
	}
	// allocs inside the loop body whose cells are locals: drop (re-created on entry)
	ks := make([]string, 0, len(keys))
	for k := range keys {
		ks = append(ks, k)
	}
	sort.Strings(ks)
	for _, k := range ks {
		fe.havocKey(st, k, keys[k], fmt.Sprintf("loop %d", l.Ordinal))
	}
	if allocates {
		n := st.freshConst("now", SInt)
		st.assume(Ge(n, st.now), "allocation clock is monotone")
		st.now = n
	}
}

func (fe *FnExec) keysOfStruct(t types.Type, keys map[string]*Sort) {
	s, ok := t.Underlying().(*types.Struct)
	if !ok {
		return
	}
	for i := 0; i < s.NumFields(); i++ {
		fe.keysOfField(typeKey(t), s.Field(i).Name(), s.Field(i).Type(), keys)
	}
}

func (fe *FnExec) keysOfField(owner, name string, ft types.Type, keys map[string]*Sort) {
	if isStructByValue(ft) {
		fe.keysOfStruct(ft, keys)
		return
	}
	cs, err := compsOf(ft)
	if err != nil {
		return
	}
	for _, c := range cs {
		keys[fieldKey(owner, name)+c.suffix] = SArray(SInt, c.sort)
	}
}

// havocKey replaces heap array key by a fresh array that agrees with the old
// one on every location the function may not write (frame from modifies).
func (fe *FnExec) havocKey(st *State, key string, sort *Sort, why string) {
	cur := st.heapArr(key, sort)
	n := st.freshConst("Hh."+key, cur.Sort)
	if fe.Mode != "permissive" {
		x := Term{"r!frame", SInt}
		allowed := fe.allowedWrite(st, key, x)
		// locations that cannot be written keep their value
		body := Implies(Not(allowed), Eq(Select(n, x), Select(cur, x)))
		st.assume(Forall([]BoundVar{{"r!frame", SInt}}, body, []Term{Select(n, x)}), "frame of "+why+" for "+key)
	}
	st.heap[key] = n
}

// ---------------------------------------------------------------------------
// instruction semantics

func (fe *FnExec) get(st *State, v ssa.Value) SVal {
	switch x := v.(type) {
	case *ssa.Const:
		return fe.constant(st, x)
	case *ssa.Function:
		return Scalar{fe.funcRef(x)}
	case *ssa.Global:
		if typeKey(x.Type().(*types.Pointer).Elem()) == "sync.Mutex" {
			// a package-level mutex is an object of its own (its ghost lock state lives in the heap)
			return Scalar{fe.globalObjRef(x.String())}
		}
		return AddrV{Kind: "global", Glob: x, ElemT: x.Type().(*types.Pointer).Elem()}
	case *ssa.Builtin:
		fe.fail("builtin %s used as a value", x.Name())
	}
	val, ok := st.vals[v]
	if !ok {
		fe.fail("value %s (%T) has no symbolic value in %s", v.Name(), v, fe.Fn)
	}
	return val
}

func (fe *FnExec) funcRef(f *ssa.Function) Term {
	name := fe.uninterp("fn."+shortFn(f.String()), nil, SInt)
	fe.addPrelude("fnnz:"+name, "(assert (not (= "+name+" 0)))")
	return Term{name, SInt}
}

func (fe *FnExec) constant(st *State, c *ssa.Const) SVal {
	t := c.Type()
	if c.Value == nil {
		z, err := zeroVal(t)
		if err != nil {
			fe.fail("zero constant of %s: %v", t, err)
		}
		return z
	}
	switch u := t.Underlying().(type) {
	case *types.Basic:
		info := u.Info()
		switch {
		case info&types.IsBoolean != 0:
			return Scalar{BoolLit(constant.BoolVal(c.Value))}
		case info&types.IsInteger != 0:
			return Scalar{IntLitStr(constant.ToInt(c.Value).ExactString())}
		case info&types.IsFloat != 0:
			if u.Kind() == types.Float32 {
				return Scalar{fe.f32Const(c.Value)}
			}
			return Scalar{RealLitStr(c.Value.ExactString())}
		case info&types.IsString != 0:
			return Scalar{fe.strLit(constant.StringVal(c.Value))}
		}
	}
	fe.fail("unsupported constant %s of type %s", c, t)
	return nil
}

func (fe *FnExec) f32Const(v constant.Value) Term {
	s := v.ExactString()
	if s == "0" {
		return Term{"f32.zero", SF32}
	}
	name := fe.uninterp("f32.const."+s, nil, SF32)
	return Term{name, SF32}
}

func (st *State) loadGlobal(key string, t types.Type) (SVal, error) {
	if isStructByValue(t) {
		if t.Underlying().(*types.Struct).NumFields() == 0 {
			return StructV{T: t}, nil
		}
		return nil, fmt.Errorf("struct-typed global %s unsupported", key)
	}
	cs, err := compsOf(t)
	if err != nil {
		return nil, err
	}
	ts := make([]Term, len(cs))
	for i, c := range cs {
		ts[i] = Select(st.heapArr("global:"+key+c.suffix, SArray(SInt, c.sort)), IntLit(0))
	}
	v := mkVal(t, ts)
	st.assumeTypeInv(v, t)
	return v, nil
}

func (fe *FnExec) step(st *State, in ssa.Instruction) {
	switch x := in.(type) {
	case *ssa.DebugRef:
		return
	case *ssa.Alloc:
		et := x.Type().(*types.Pointer).Elem()
		if isStructByValue(et) {
			r := st.newRef("new." + typeKeyShort(et))
			if err := st.zeroObject(r, et); err != nil {
				fe.fail("%s: %v", fe.pos(x.Pos()), err)
			}
			st.vals[x] = Scalar{r}
			return
		}
		if at, isArr := et.Underlying().(*types.Array); isArr {
			// an array object is modelled as a fresh backing array (used for varargs)
			arr := st.newRef("arr")
			if !isStructByValue(at.Elem()) {
				if cs, err := compsOf(at.Elem()); err == nil {
					for _, cp := range cs {
						key := elemKey(at.Elem()) + cp.suffix
						h := st.heapArr(key, SArray(SInt, SArray(SInt, cp.sort)))
						zero := Term{"((as const (Array Int " + cp.sort.String() + ")) " + zeroTerm(cp.sort).S + ")", SArray(SInt, cp.sort)}
						st.setHeap(key, Store(h, arr, zero))
					}
				}
			}
			st.vals[x] = Scalar{arr}
			return
		}
		z, err := zeroVal(et)
		if err != nil {
			fe.fail("%s: alloc %s: %v", fe.pos(x.Pos()), et, err)
		}
		st.locals[x] = z
		st.vals[x] = AddrV{Kind: "local", Local: x, ElemT: et}
	case *ssa.Store:
		fe.store(st, x, fe.get(st, x.Addr), fe.get(st, x.Val))
	case *ssa.UnOp:
		fe.unop(st, x)
	case *ssa.BinOp:
		st.vals[x] = fe.binop(st, x)
	case *ssa.FieldAddr:
		base := fe.get(st, x.X)
		ref, ok := base.(Scalar)
		if !ok {
			fe.fail("%s: FieldAddr on %T", fe.pos(x.Pos()), base)
		}
		stt := x.X.Type().Underlying().(*types.Pointer).Elem()
		f := stt.Underlying().(*types.Struct).Field(x.Field)
		fe.safety(st, Neq(ref.T, IntLit(0)), x, "nil-deref")
		if isStructByValue(f.Type()) {
			st.vals[x] = Scalar{st.embRef(ref.T, typeKey(stt), f.Name())}
		} else {
			st.vals[x] = AddrV{Kind: "field", Ref: ref.T, Owner: typeKey(stt), Field: f, ElemT: f.Type()}
		}
	case *ssa.Field:
		base := fe.get(st, x.X)
		sv, ok := base.(StructV)
		if !ok {
			fe.fail("%s: Field on %T", fe.pos(x.Pos()), base)
		}
		st.vals[x] = sv.F[x.Field]
	case *ssa.IndexAddr:
		base := fe.get(st, x.X)
		idx := fe.get(st, x.Index).(Scalar).T
		if pt, isPtr := x.X.Type().Underlying().(*types.Pointer); isPtr {
			at := pt.Elem().Underlying().(*types.Array)
			ref := base.(Scalar).T
			fe.safety(st, And(Ge(idx, IntLit(0)), Lt(idx, IntLit(at.Len()))), x, "index")
			st.vals[x] = AddrV{Kind: "elem", Arr: ref, Idx: idx, ElemT: at.Elem()}
			return
		}
		sl, ok := base.(SliceV)
		if !ok {
			fe.fail("%s: IndexAddr on %T (arrays unsupported)", fe.pos(x.Pos()), base)
		}
		et := x.X.Type().Underlying().(*types.Slice).Elem()
		fe.safety(st, And(Ge(idx, IntLit(0)), Lt(idx, sl.Len)), x, "index")
		if isStructByValue(et) {
			fe.fail("%s: slice of struct values unsupported", fe.pos(x.Pos()))
		}
		st.vals[x] = AddrV{Kind: "elem", Arr: sl.Arr, Idx: st.define("ix", Add(sl.Off, idx)), ElemT: et}
	case *ssa.Slice:
		fe.slice(st, x)
	case *ssa.Call:
		res := fe.call(st, x, x.Common())
		if res != nil {
			st.vals[x] = res
		}
	case *ssa.Defer:
		c := x.Common()
		var args []SVal
		for _, a := range c.Args {
			args = append(args, fe.get(st, a))
		}
		var recv SVal
		if c.IsInvoke() || !isStaticCallee(c) {
			recv = fe.get(st, c.Value)
		}
		st.defers = append(st.defers, deferRec{x, args, recv})
	case *ssa.RunDefers:
		for i := len(st.defers) - 1; i >= 0; i-- {
			d := st.defers[i]
			fe.callWith(st, d.instr, d.instr.Common(), d.recv, d.args)
			if st.dead {
				return
			}
		}
		st.defers = nil
	case *ssa.Extract:
		tv, ok := fe.get(st, x.Tuple).(TupleV)
		if !ok {
			fe.fail("%s: extract from non-tuple", fe.pos(x.Pos()))
		}
		st.vals[x] = tv.E[x.Index]
	case *ssa.Convert:
		st.vals[x] = fe.convert(st, x)
	case *ssa.ChangeType:
		st.vals[x] = fe.get(st, x.X)
	case *ssa.ChangeInterface:
		st.vals[x] = fe.get(st, x.X)
	case *ssa.MakeInterface:
		v := fe.get(st, x.X)
		code := fe.typeCodeOf(x.X.Type())
		switch vv := v.(type) {
		case Scalar:
			if vv.T.Sort == SInt {
				if _, isPtr := x.X.Type().Underlying().(*types.Pointer); isPtr {
					if st.boxed == nil {
						st.boxed = map[string]types.Type{}
					}
					st.boxed[vv.T.S] = x.X.Type()
				}
				st.vals[x] = IfaceV{code, vv.T}
			} else {
				// boxed non-integer scalar: payload id by an injective box function
				bx, _ := fe.boxFuncs(vv.T.Sort)
				st.vals[x] = IfaceV{code, App(SInt, bx, vv.T)}
			}
		case StructV:
			fl := flatten(vv)
			name := fe.uninterp("box."+typeKeyShort(x.X.Type()), fl, SInt)
			st.vals[x] = IfaceV{code, App(SInt, name, fl...)}
		case SliceV:
			fl := flatten(vv)
			name := fe.uninterp("box.slice", fl, SInt)
			st.vals[x] = IfaceV{code, App(SInt, name, fl...)}
		case IfaceV:
			st.vals[x] = vv
		case AddrV:
			if vv.Kind == "local" && fe.Mode == "permissive" {
				// the address of a local cell escapes into an interface: opaque reference; the
				// cell is forgotten at every un-contracted call from now on
				st.escaped = append(st.escaped, vv.Local)
				st.vals[x] = IfaceV{code, st.newRef("addr")}
			} else {
				fe.fail("%s: address of a cell escapes into an interface (outside the strict subset)", fe.pos(x.Pos()))
			}
		default:
			fe.fail("%s: MakeInterface of %T", fe.pos(x.Pos()), v)
		}
	case *ssa.TypeAssert:
		fe.typeAssert(st, x)
	case *ssa.MakeSlice:
		n := fe.get(st, x.Len).(Scalar).T
		c := fe.get(st, x.Cap).(Scalar).T
		fe.safety(st, And(Ge(n, IntLit(0)), Ge(c, n)), x, "makeslice-len")
		arr := st.newRef("mk.arr")
		et := x.Type().Underlying().(*types.Slice).Elem()
		// zero-initialised elements
		if !isStructByValue(et) {
			if cs, err := compsOf(et); err == nil {
				for _, cp := range cs {
					key := elemKey(et) + cp.suffix
					h := st.heapArr(key, SArray(SInt, SArray(SInt, cp.sort)))
					zero := Term{"((as const (Array Int " + cp.sort.String() + ")) " + zeroTerm(cp.sort).S + ")", SArray(SInt, cp.sort)}
					st.setHeap(key, Store(h, arr, zero))
				}
			}
		}
		st.vals[x] = SliceV{arr, IntLit(0), n, c}
		fe.makeGhosts(st, x, arr)
	case *ssa.Phi:
		for i, p := range x.Block().Preds {
			if p == st.prev {
				st.vals[x] = fe.get(st, x.Edges[i])
				return
			}
		}
		fe.fail("%s: phi without matching predecessor", fe.pos(x.Pos()))
	case *ssa.MakeChan:
		ch := Scalar{st.newRef("mkchan")}
		st.vals[x] = ch
		if fe.Mode == "permissive" {
			fe.pseudoCall(st, in, "makechan", []SVal{fe.get(st, x.Size)}, []types.Type{x.Size.Type()}, ch, x.Type())
		}
	case *ssa.MakeMap:
		st.vals[x] = Scalar{st.newRef("mk")}
	case *ssa.MakeClosure:
		if fe.Mode != "permissive" {
			fe.fail("%s: closures are outside the verified subset", fe.pos(x.Pos()))
		}
		st.vals[x] = Scalar{st.newRef("closure")}
	case *ssa.Lookup:
		if mt, isMap := x.X.Type().Underlying().(*types.Map); isMap && !x.CommaOk {
			m := fe.get(st, x.X)
			k := fe.get(st, x.Index)
			v, err := st.mapGet(refOf(m), flatten(k), mt)
			if err != nil {
				fe.fail("%s: map lookup: %v", fe.pos(x.Pos()), err)
			}
			st.assumeTypeInv(v, mt.Elem())
			st.vals[x] = v
			return
		}
		if fe.Mode != "permissive" {
			fe.fail("%s: instruction %T is outside the verified subset", fe.pos(in.Pos()), in)
		}
		fv, err := st.freshValue("havoc", x.Type())
		if err != nil {
			fe.fail("%s: %v", fe.pos(in.Pos()), err)
		}
		st.vals[x] = fv
	case *ssa.MapUpdate:
		if fe.Mode != "permissive" {
			fe.fail("%s: map update is outside the strict subset", fe.pos(in.Pos()))
		}
		// record the update so that structural checks can see which keys were set
		m := fe.get(st, x.Map)
		k := fe.get(st, x.Key)
		v := fe.get(st, x.Value)
		st.countCall("mapupdate")
		st.callSeq++
		st.callLog[fmt.Sprintf("mapupdate#%d", st.callCnt["mapupdate"])] = callRec{seq: st.callSeq, args: []SVal{m, k, v},
			argT: []types.Type{x.Map.Type(), x.Key.Type(), x.Value.Type()}}
		st.bumpMaps()
	case *ssa.Send:
		if fe.Mode != "permissive" {
			fe.fail("%s: channel send is outside the strict subset", fe.pos(in.Pos()))
		}
		fe.pseudoCall(st, in, "send", []SVal{fe.get(st, x.Chan), fe.get(st, x.X)}, []types.Type{x.Chan.Type(), x.X.Type()}, nil, nil)
	case *ssa.Select:
		if fe.Mode != "permissive" {
			fe.fail("%s: select is outside the strict subset", fe.pos(in.Pos()))
		}
		fv, err := st.freshValue("select", x.Type())
		if err != nil {
			fe.fail("%s: %v", fe.pos(in.Pos()), err)
		}
		if tv, ok := fv.(TupleV); ok && len(tv.E) > 0 {
			idx := tv.E[0].(Scalar).T
			lo := int64(0)
			if !x.Blocking {
				lo = -1
			}
			st.assume(And(Ge(idx, IntLit(lo)), Lt(idx, IntLit(int64(len(x.States))))), "select picks one of its cases")
		}
		st.vals[x] = fv
		var args []SVal
		var argT []types.Type
		for _, sc := range x.States {
			args = append(args, fe.get(st, sc.Chan))
			argT = append(argT, sc.Chan.Type())
		}
		fe.pseudoCall(st, in, "select", args, argT, fv, x.Type())
	case *ssa.Go:
		if fe.Mode != "permissive" {
			fe.fail("%s: go statement is outside the strict subset", fe.pos(in.Pos()))
		}
		{
			c := x.Common()
			var all []SVal
			if c.IsInvoke() || !isStaticCallee(c) {
				all = append(all, fe.get(st, c.Value))
			}
			for _, a := range c.Args {
				all = append(all, fe.get(st, a))
			}
			ci := fe.calleeInfo(c)
			if len(ci.ptypes) != len(all) {
				fe.fail("%s: go %s: %d arguments for %d parameters", fe.pos(in.Pos()), ci.desc, len(all), len(ci.ptypes))
			}
			if ci.contract != nil && ci.contract.Mode != "trusted" {
				// a goroutine under contract: its precondition is checked where it is
				// started and it interferes only through its declared frame; its
				// postcondition is not assumed (it has merely been started)
				fe.asyncCall = true
				fe.applyContract(st, in, ci, all)
				fe.asyncCall = false
				fe.asyncCallees[ci.desc] = true
			} else {
				// unknown goroutine: arbitrary interference with what the arguments reach
				fe.havocCall(st, in, ci, all)
			}
		}
	case *ssa.Range, *ssa.Next, *ssa.Index:
		if fe.Mode != "permissive" {
			fe.fail("%s: instruction %T is outside the verified subset", fe.pos(in.Pos()), in)
		}
		if v, ok := in.(ssa.Value); ok {
			fv, err := st.freshValue("havoc", v.Type())
			if err != nil {
				fe.fail("%s: %v", fe.pos(in.Pos()), err)
			}
			st.vals[v] = fv
		}
	default:
		fe.fail("%s: unsupported instruction %T: %s", fe.pos(in.Pos()), in, in)
	}
}

func typeKeyShort(t types.Type) string {
	k := typeKey(t)
	if i := strings.LastIndex(k, "/"); i >= 0 {
		k = k[i+1:]
	}
	return k
}

func isStaticCallee(c *ssa.CallCommon) bool {
	switch c.Value.(type) {
	case *ssa.Function, *ssa.Builtin:
		return true
	}
	return false
}

func (fe *FnExec) store(st *State, in *ssa.Store, addr SVal, val SVal) {
	switch a := addr.(type) {
	case AddrV:
		switch a.Kind {
		case "local":
			st.locals[a.Local] = val
		case "field":
			fe.lockDiscipline(st, in, "store", fieldKey(a.Owner, a.Field.Name()), a.Ref, a.Owner)
			cs, _ := compsOf(a.ElemT)
			for _, c := range cs {
				fe.checkWrite(st, fieldKey(a.Owner, a.Field.Name())+c.suffix, a.Ref, in, "store")
				break // one check per field (all components share the reference)
			}
			if err := st.storeField(a.Ref, a.Owner, a.Field.Name(), a.ElemT, val); err != nil {
				fe.fail("%s: %v", fe.pos(in.Pos()), err)
			}
		case "elem":
			cs, _ := compsOf(a.ElemT)
			if len(cs) > 0 {
				fe.checkWrite(st, elemKey(a.ElemT)+cs[0].suffix, a.Arr, in, "store")
			}
			if err := st.storeElem(a.Arr, a.Idx, a.ElemT, val); err != nil {
				fe.fail("%s: %v", fe.pos(in.Pos()), err)
			}
		case "global":
			fe.lockDiscipline(st, in, "store", "global:"+a.Glob.String(), IntLit(0), "")
			if fe.Mode != "permissive" {
				fe.checkWrite(st, "global:"+a.Glob.String(), IntLit(0), in, "store-global")
			}
			cs, err := compsOf(a.ElemT)
			if err != nil {
				fe.fail("%s: global %s: %v", fe.pos(in.Pos()), a.Glob, err)
			}
			ts := flatten(val)
			for i, c := range cs {
				key := "global:" + a.Glob.String() + c.suffix
				st.setHeap(key, Store(st.heapArr(key, SArray(SInt, c.sort)), IntLit(0), ts[i]))
			}
		}
	case Scalar:
		// store of a whole struct through a struct pointer
		pt, ok := in.Addr.Type().Underlying().(*types.Pointer)
		if !ok || !isStructByValue(pt.Elem()) {
			fe.fail("%s: store through unsupported pointer %s", fe.pos(in.Pos()), in.Addr.Type())
		}
		fe.safety(st, Neq(a.T, IntLit(0)), in, "nil-deref")
		keys := map[string]*Sort{}
		fe.keysOfStruct(pt.Elem(), keys)
		if len(keys) > 0 {
			// frame check on the first key is enough when the object is fresh or listed with .*
			ks := make([]string, 0, len(keys))
			for k := range keys {
				ks = append(ks, k)
			}
			sort.Strings(ks)
			fe.checkWrite(st, ks[0], a.T, in, "store-struct")
		}
		if err := st.storeStruct(a.T, pt.Elem(), val); err != nil {
			fe.fail("%s: %v", fe.pos(in.Pos()), err)
		}
	default:
		fe.fail("%s: store to %T", fe.pos(in.Pos()), addr)
	}
}

func (fe *FnExec) unop(st *State, x *ssa.UnOp) {
	switch x.Op {
	case token.ARROW: // channel receive: an arbitrary value of the element type
		if fe.Mode != "permissive" {
			fe.fail("%s: channel receive is outside the strict subset", fe.pos(x.Pos()))
		}
		fv, err := st.freshValue("recv", x.Type())
		if err != nil {
			fe.fail("%s: %v", fe.pos(x.Pos()), err)
		}
		st.vals[x] = fv
		fe.pseudoCall(st, x, "recv", []SVal{fe.get(st, x.X)}, []types.Type{x.X.Type()}, fv, x.Type())
		return
	case token.MUL: // load
		addr := fe.get(st, x.X)
		switch a := addr.(type) {
		case AddrV:
			switch a.Kind {
			case "local":
				st.vals[x] = st.locals[a.Local]
			case "field":
				fe.lockDiscipline(st, x, "load", fieldKey(a.Owner, a.Field.Name()), a.Ref, a.Owner)
				v, err := st.loadField(a.Ref, a.Owner, a.Field.Name(), a.ElemT)
				if err != nil {
					fe.fail("%s: %v", fe.pos(x.Pos()), err)
				}
				st.vals[x] = v
			case "elem":
				v, err := st.loadElem(a.Arr, a.Idx, a.ElemT)
				if err != nil {
					fe.fail("%s: %v", fe.pos(x.Pos()), err)
				}
				st.vals[x] = v
			case "global":
				fe.lockDiscipline(st, x, "load", "global:"+a.Glob.String(), IntLit(0), "")
				v, err := st.loadGlobal(a.Glob.String(), a.ElemT)
				if err != nil && fe.Mode == "permissive" {
					// a package-level struct value the heap model does not carry: arbitrary
					v, err = st.freshValue("glob", a.ElemT)
				}
				if err != nil {
					fe.fail("%s: %v", fe.pos(x.Pos()), err)
				}
				st.vals[x] = v
			}
		case Scalar:
			pt, ok := x.X.Type().Underlying().(*types.Pointer)
			if !ok || !isStructByValue(pt.Elem()) {
				fe.fail("%s: load through unsupported pointer %s", fe.pos(x.Pos()), x.X.Type())
			}
			fe.safety(st, Neq(a.T, IntLit(0)), x, "nil-deref")
			v, err := st.loadStruct(a.T, pt.Elem())
			if err != nil {
				fe.fail("%s: %v", fe.pos(x.Pos()), err)
			}
			st.vals[x] = v
		default:
			fe.fail("%s: load from %T", fe.pos(x.Pos()), addr)
		}
	case token.NOT:
		st.vals[x] = Scalar{Not(fe.get(st, x.X).(Scalar).T)}
	case token.SUB:
		v := fe.get(st, x.X).(Scalar).T
		if v.Sort == SF32 {
			fe.fail("%s: float32 negation unsupported", fe.pos(x.Pos()))
		}
		st.vals[x] = Scalar{wrapInt(Neg(v), x.Type())}
	default:
		fe.fail("%s: unsupported unary operator %s", fe.pos(x.Pos()), x.Op)
	}
}

func (fe *FnExec) binop(st *State, x *ssa.BinOp) SVal {
	a, b := fe.get(st, x.X), fe.get(st, x.Y)
	switch x.Op {
	case token.EQL, token.NEQ:
		eq, err := valEq(a, b)
		if err != nil {
			fe.fail("%s: %v", fe.pos(x.Pos()), err)
		}
		if x.Op == token.NEQ {
			eq = Not(eq)
		}
		return Scalar{eq}
	}
	at, ok1 := a.(Scalar)
	bt, ok2 := b.(Scalar)
	if !ok1 || !ok2 {
		fe.fail("%s: binary %s on %T,%T", fe.pos(x.Pos()), x.Op, a, b)
	}
	l, r := at.T, bt.T
	if l.Sort == SF32 || r.Sort == SF32 {
		return fe.f32op(st, x, l, r)
	}
	if l.Sort == SStr {
		switch x.Op {
		case token.ADD:
			return Scalar{App(SStr, "strcat", l, r)}
		}
		fe.fail("%s: string operator %s unsupported", fe.pos(x.Pos()), x.Op)
	}
	t := x.X.Type()
	switch x.Op {
	case token.ADD:
		return Scalar{wrapInt(Add(l, r), t)}
	case token.SUB:
		return Scalar{wrapInt(Sub(l, r), t)}
	case token.MUL:
		return Scalar{wrapInt(Mul(l, r), t)}
	case token.QUO:
		if l.Sort == SInt {
			fe.safety(st, Neq(r, IntLit(0)), x, "div-by-zero")
		}
		return Scalar{wrapInt(GoDiv(l, r), t)}
	case token.REM:
		fe.safety(st, Neq(r, IntLit(0)), x, "div-by-zero")
		return Scalar{GoRem(l, r)}
	case token.LSS:
		return Scalar{Lt(l, r)}
	case token.LEQ:
		return Scalar{Le(l, r)}
	case token.GTR:
		return Scalar{Gt(l, r)}
	case token.GEQ:
		return Scalar{Ge(l, r)}
	case token.LAND, token.LOR:
		fe.fail("unexpected short-circuit operator in SSA")
	}
	if fe.Mode == "permissive" {
		v, _ := st.freshValue("bitop", x.Type())
		return v
	}
	fe.fail("%s: unsupported binary operator %s", fe.pos(x.Pos()), x.Op)
	return nil
}

// float32 operations are uninterpreted here; the facts needed about them are
// named lemmas proved separately in QF_FP (see contracts/lemmas) and assumed as axioms.
func (fe *FnExec) f32op(st *State, x *ssa.BinOp, l, r Term) SVal {
	switch x.Op {
	case token.ADD:
		return Scalar{App(SF32, fe.uninterp("f32.add", []Term{l, r}, SF32), l, r)}
	case token.SUB:
		return Scalar{App(SF32, fe.uninterp("f32.sub", []Term{l, r}, SF32), l, r)}
	case token.LSS:
		return Scalar{App(SBool, fe.uninterp("f32.lt", []Term{l, r}, SBool), l, r)}
	case token.GTR:
		return Scalar{App(SBool, fe.uninterp("f32.lt", []Term{r, l}, SBool), r, l)}
	}
	fe.fail("%s: unsupported float32 operator %s", fe.pos(x.Pos()), x.Op)
	return nil
}

func (fe *FnExec) convert(st *State, x *ssa.Convert) SVal {
	v := fe.get(st, x.X)
	from, to := x.X.Type().Underlying(), x.Type().Underlying()
	fb, fok := from.(*types.Basic)
	tb, tok := to.(*types.Basic)
	if fok && tok {
		s := v.(Scalar).T
		switch {
		case fb.Info()&types.IsInteger != 0 && tb.Info()&types.IsInteger != 0:
			return Scalar{wrapInt(s, x.Type())}
		case fb.Info()&types.IsInteger != 0 && tb.Kind() == types.Float64:
			return Scalar{ToReal(s)}
		case fb.Info()&types.IsInteger != 0 && tb.Kind() == types.Float32:
			return Scalar{App(SF32, fe.uninterp("f32.of_int", []Term{s}, SF32), s)}
		case fb.Kind() == types.Float64 && tb.Info()&types.IsInteger != 0:
			// Go: truncation toward zero; out-of-range is implementation-defined, so
			// the conversion is only defined (and obliged) inside the target range.
			tr := Ite(Ge(s, Term{"0.0", SReal}), App(SInt, "to_int", s), Neg(App(SInt, "to_int", Neg(s))))
			tr = st.define("trunc", tr)
			// out of range the result is implementation-defined (no panic): unconstrained
			if inRange := rangeFactOrTrue(tr, x.Type()); inRange.S != "true" {
				any := st.freshConst("fconv", SInt)
				st.assume(rangeFact(any, x.Type()), "")
				return Scalar{st.define("conv", Ite(inRange, tr, any))}
			}
			return Scalar{tr}
		case fb.Kind() == types.Float64 && tb.Kind() == types.Float64:
			return v
		case fb.Kind() == types.Float32 && tb.Kind() == types.Float64:
			return Scalar{App(SReal, fe.uninterp("f32.to_real", []Term{s}, SReal), s)}
		case fb.Kind() == types.Float64 && tb.Kind() == types.Float32:
			return Scalar{App(SF32, fe.uninterp("f32.of_real", []Term{s}, SF32), s)}
		case fb.Info()&types.IsString != 0 && tb.Info()&types.IsString != 0:
			return v
		}
	}
	// string(bytes) / []byte(string): opaque
	if _, isSlice := from.(*types.Slice); isSlice && tok && tb.Info()&types.IsString != 0 {
		sl := v.(SliceV)
		// string content as an uninterpreted function of the bytes read
		h := st.heapArr("elems:uint8", SArray(SInt, SArray(SInt, SInt)))
		name := fe.uninterp("str_of_bytes", []Term{Select(h, sl.Arr), sl.Off, sl.Len}, SStr)
		return Scalar{App(SStr, name, Select(h, sl.Arr), sl.Off, sl.Len)}
	}
	// []byte(string): a fresh array holding the bytes of the string
	if ts, isSlice := to.(*types.Slice); isSlice && fok && fb.Info()&types.IsString != 0 {
		if eb, ok := ts.Elem().Underlying().(*types.Basic); ok && eb.Kind() == types.Uint8 {
			str := v.(Scalar).T
			arr := st.newRef("bytes.arr")
			n := App(SInt, "strlen", str)
			key := elemKey(ts.Elem())
			h := st.heapArr(key, SArray(SInt, SArray(SInt, SInt)))
			na := st.freshConst("bytes", SArray(SInt, SInt))
			i := Term{"i!sb", SInt}
			st.assume(Forall([]BoundVar{{"i!sb", SInt}}, Implies(And(Ge(i, IntLit(0)), Lt(i, n)), Eq(Select(na, i), App(SInt, "strbyte", str, i))), []Term{Select(na, i)}),
				"bytes of the converted string")
			st.setHeap(key, Store(h, arr, na))
			return SliceV{arr, IntLit(0), n, n}
		}
	}
	if fe.Mode == "permissive" {
		fv, err := st.freshValue("conv", x.Type())
		if err == nil {
			return fv
		}
	}
	fe.fail("%s: unsupported conversion %s -> %s", fe.pos(x.Pos()), x.X.Type(), x.Type())
	return nil
}

func rangeFactOrTrue(v Term, t types.Type) Term {
	bits, _, ok := intBits(t)
	if !ok || bits == 64 {
		return TTrue
	}
	return rangeFact(v, t)
}

func (fe *FnExec) slice(st *State, x *ssa.Slice) {
	base := fe.get(st, x.X)
	if pt, isPtr := x.X.Type().Underlying().(*types.Pointer); isPtr {
		if at, isArr := pt.Elem().Underlying().(*types.Array); isArr {
			base = SliceV{base.(Scalar).T, IntLit(0), IntLit(at.Len()), IntLit(at.Len())}
		}
	}
	sl, ok := base.(SliceV)
	if !ok {
		if s, isStr := base.(Scalar); isStr && s.T.Sort == SStr && fe.Mode == "permissive" {
			v, _ := st.freshValue("substr", x.Type())
			st.vals[x] = v
			return
		}
		fe.fail("%s: slice of %T unsupported", fe.pos(x.Pos()), base)
	}
	lo, hi := IntLit(0), sl.Len
	if x.Low != nil {
		lo = fe.get(st, x.Low).(Scalar).T
	}
	if x.High != nil {
		hi = fe.get(st, x.High).(Scalar).T
	}
	mx := sl.Cap
	if x.Max != nil {
		mx = fe.get(st, x.Max).(Scalar).T
		fe.safety(st, And(Le(hi, mx), Le(mx, sl.Cap)), x, "slice-max")
	}
	fe.safety(st, And(Ge(lo, IntLit(0)), Le(lo, hi), Le(hi, sl.Cap)), x, "slice-bounds")
	st.vals[x] = SliceV{sl.Arr, st.define("off", Add(sl.Off, lo)), st.define("len", Sub(hi, lo)), st.define("cap", Sub(mx, lo))}
}

func (fe *FnExec) typeAssert(st *State, x *ssa.TypeAssert) {
	v, ok := fe.get(st, x.X).(IfaceV)
	if !ok {
		fe.fail("%s: type assertion on non-interface", fe.pos(x.Pos()))
	}
	if _, toIface := x.AssertedType.Underlying().(*types.Interface); toIface {
		if x.CommaOk {
			okv := st.freshConst("ta.ok", SBool)
			st.vals[x] = TupleV{[]SVal{v, Scalar{okv}}}
		} else {
			st.vals[x] = v
		}
		return
	}
	code := fe.typeCodeOf(x.AssertedType)
	is := Eq(v.Typ, code)
	var payload SVal
	cs, err := compsOf(x.AssertedType)
	switch {
	case err == nil && len(cs) == 1 && cs[0].sort == SInt:
		payload = Scalar{v.Ref}
	case err == nil && len(cs) == 1:
		_, un := fe.boxFuncs(cs[0].sort)
		payload = Scalar{App(cs[0].sort, un, v.Ref)}
	default:
		fv, err2 := st.freshValue("unbox", x.AssertedType)
		if err2 != nil {
			fe.fail("%s: type assertion to %s: %v", fe.pos(x.Pos()), x.AssertedType, err2)
		}
		payload = fv
	}
	if x.CommaOk {
		// on failure the zero value is returned
		z, err := zeroVal(x.AssertedType)
		if err != nil {
			fe.fail("%s: %v", fe.pos(x.Pos()), err)
		}
		pf, zf := flatten(payload), flatten(z)
		out := make([]Term, len(pf))
		for i := range pf {
			out[i] = Ite(is, pf[i], zf[i])
		}
		st.vals[x] = TupleV{[]SVal{mkValLike2(x.AssertedType, out), Scalar{is}}}
		return
	}
	fe.safety(st, is, x, "type-assert")
	st.vals[x] = payload
}

func mkValLike2(t types.Type, fl []Term) SVal {
	if len(fl) == 1 {
		return Scalar{fl[0]}
	}
	return mkVal(t, fl)
}
