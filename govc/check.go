package main

// govc check: decide one property, write evidence, print VIOLATION / KNOWN-FINDING.

import (
	"context"
	"encoding/json"
	"flag"
	"fmt"
	"go/types"
	"os"
	"os/exec"
	"path/filepath"
	"sort"
	"strconv"
	"strings"
	"time"

	"golang.org/x/tools/go/ssa"
)

type knownFinding struct {
	Kind       string // known | fixed
	Property   string
	Obligation string // substring match on the obligation name
	Path       string // optional: substring of the path description
	Text       string
}

// touchesLockDiscipline: the function stores to a location declared guarded or immutable.
func touchesLockDiscipline(p *Program, fn *ssa.Function) bool {
	if fn == nil {
		return false
	}
	for _, b := range fn.Blocks {
		for _, in := range b.Instrs {
			s, ok := in.(*ssa.Store)
			if !ok {
				continue
			}
			key := ""
			switch a := s.Addr.(type) {
			case *ssa.FieldAddr:
				if pt, ok := a.X.Type().Underlying().(*types.Pointer); ok {
					if st, ok := pt.Elem().Underlying().(*types.Struct); ok {
						key = typeKey(pt.Elem()) + "." + st.Field(a.Field).Name()
					}
				}
			case *ssa.Global:
				key = "global:" + a.String()
			}
			if _, g := p.Guarded[key]; g || p.Immutable[key] {
				return true
			}
		}
	}
	return false
}

func loadKnownFindings(path string) []knownFinding {
	data, err := os.ReadFile(path)
	if err != nil {
		return nil
	}
	var out []knownFinding
	for _, line := range strings.Split(string(data), "\n") {
		line = strings.TrimSpace(line)
		if line == "" || strings.HasPrefix(line, "#") {
			continue
		}
		kf := knownFinding{}
		switch {
		case strings.HasPrefix(line, "known:"):
			kf.Kind = "known"
			line = strings.TrimSpace(line[6:])
		case strings.HasPrefix(line, "fixed:"):
			kf.Kind = "fixed"
			line = strings.TrimSpace(line[6:])
		default:
			continue
		}
		var rest []string
		for _, f := range strings.Fields(line) {
			switch {
			case strings.HasPrefix(f, "property="):
				kf.Property = f[9:]
			case strings.HasPrefix(f, "obligation="):
				kf.Obligation = f[11:]
			case strings.HasPrefix(f, "path="):
				kf.Path = f[5:]
			default:
				rest = append(rest, f)
			}
		}
		kf.Text = strings.Join(rest, " ")
		out = append(out, kf)
	}
	return out
}

type evidence struct {
	PropertyID  string                 `json:"property_id"`
	Tier        string                 `json:"tier"`
	Seed        int                    `json:"seed"`
	Level       string                 `json:"level"`
	Coverage    map[string]interface{} `json:"coverage"`
	Assumptions []string               `json:"assumptions"`
	WallS       float64                `json:"wall_s"`
	Violations  int                    `json:"violations"`
}

func hasTag(tags []string, t string) bool {
	for _, x := range tags {
		if x == t {
			return true
		}
	}
	return false
}

func cmdCheck(args []string) {
	fs := flag.NewFlagSet("check", flag.ExitOnError)
	repo := fs.String("repo", "/repo", "repository")
	verif := fs.String("verif", "/verif", "verif directory")
	prop := fs.String("prop", "", "property id")
	tier := fs.String("tier", "quick", "quick|thorough")
	evOut := fs.String("evidence", "", "evidence file (default <verif>/evidence/<id>.json)")
	maxPaths := fs.Int("maxpaths", 4096, "path budget per function")
	fs.Parse(args)
	if *prop == "" {
		fmt.Fprintln(os.Stderr, "check: -prop required")
		os.Exit(2)
	}
	seed := 0
	if s := os.Getenv("VERIF_SEED"); s != "" {
		seed, _ = strconv.Atoi(s)
	}
	start := time.Now()
	p, err := loadProgram(*repo, filepath.Join(*verif, "contracts"))
	if err != nil {
		fmt.Fprintln(os.Stderr, "engine error:", err)
		os.Exit(2)
	}
	// closure of the property: every function under contract carrying the tag
	var keys []string
	for k, c := range p.Contracts {
		if c.Kind != "func" || c.Mode == "trusted" {
			continue
		}
		if hasTag(contractTags(c), *prop) {
			keys = append(keys, k)
		} else if *prop == "C16" && c.Kind == "func" && c.Mode != "trusted" && (c.Thread == "any" || touchesLockDiscipline(p, p.Funcs[k])) {
			// lock discipline: every function that may run on a request thread, and every
			// function that stores to a guarded or immutable location
			keys = append(keys, k)
		}
	}
	// transitive callees under (non-trusted) contract: their support and safety
	// obligations carry the property too, because callers rely on their contracts
	inSet := map[string]bool{}
	for _, k := range keys {
		inSet[k] = true
	}
	for i := 0; i < len(keys); i++ {
		fn := p.Funcs[keys[i]]
		if fn == nil {
			continue
		}
		// helpers of the repository that have no contract are executed in place
		// (DESIGN.md 12.15): what they call under contract belongs to the closure too
		scan := []*ssa.Function{fn}
		scanned := map[*ssa.Function]bool{fn: true}
		for si := 0; si < len(scan); si++ {
			for _, b := range scan[si].Blocks {
				for _, in := range b.Instrs {
					ci, ok := in.(ssa.CallInstruction)
					if !ok {
						continue
					}
					if callee, ok := ci.Common().Value.(*ssa.Function); ok {
						ck := callee.String()
						if c := p.Contracts[ck]; c != nil && c.Kind == "func" && c.Mode != "trusted" && !inSet[ck] {
							inSet[ck] = true
							keys = append(keys, ck)
						} else if c == nil && callee.Pkg != nil && len(callee.Blocks) > 0 && !scanned[callee] && len(scan) < 64 &&
							strings.HasPrefix(callee.Pkg.Pkg.Path(), "github.com/TheCacophonyProject/thermal-recorder") {
							scanned[callee] = true
							scan = append(scan, callee)
						}
					}
				}
			}
		}
	}
	sort.Strings(keys)
	if len(keys) == 0 {
		fmt.Fprintf(os.Stderr, "engine error: no function under contract carries tag %s\n", *prop)
		os.Exit(2)
	}
	wd, _ := os.MkdirTemp("", "govc-"+*prop+"-")
	defer os.RemoveAll(wd)
	timeout := 10
	all := false
	if *tier == "thorough" {
		timeout = 30
		all = true
	}
	var lemmas []LemmaDecl
	for _, l := range p.Lemmas {
		if hasTag(l.Tags, *prop) {
			lemmas = append(lemmas, l)
		}
	}
	skipLockOnlyFor = *prop
	res := verifyFuncs(p, keys, runOpts{repo: *repo, workdir: wd, timeout: timeout, all: all, maxPaths: *maxPaths, lemmas: lemmas})
	// Unmasking: a mid-path obligation is assumed for the rest of its path once it has
	// been generated; if it fails, what follows it on that path was checked under a false
	// assumption. Re-run the affected functions without assuming the failed ones and add
	// whatever fails now (at most two rounds).
	for round := 0; round < 2; round++ {
		var again []string
		for _, fr := range res {
			if p.Funcs[fr.Fn] == nil {
				continue
			}
			for _, ob := range fr.Obls {
				if ob.Cover || ob.Result.Status == "unsat" || ob.Result.Status == "skipped" || ob.Result.Status == "" {
					continue
				}
				if ob.Kind == "guard" || (len(ob.Tags) == 1 && ob.Tags[0] == "C16") {
					continue // never assumed, so it hides nothing
				}
				if unmaskNames[fr.Fn] == nil {
					unmaskNames[fr.Fn] = map[string]bool{}
				}
				if !unmaskNames[fr.Fn][ob.Name] {
					unmaskNames[fr.Fn][ob.Name] = true
					if len(again) == 0 || again[len(again)-1] != fr.Fn {
						again = append(again, fr.Fn)
					}
				}
			}
		}
		if len(again) == 0 {
			break
		}
		res2 := verifyFuncs(p, again, runOpts{repo: *repo, workdir: wd, timeout: timeout, all: all, maxPaths: *maxPaths})
		for _, fr2 := range res2 {
			for _, fr := range res {
				if fr.Fn != fr2.Fn {
					continue
				}
				had := map[string]bool{}
				for _, ob := range fr.Obls {
					if ob.Result.Status != "unsat" {
						had[ob.Name+"|"+ob.Path] = true
					}
				}
				for _, ob := range fr2.Obls {
					if ob.Cover || ob.Result.Status == "unsat" || ob.Result.Status == "skipped" || had[ob.Name+"|"+ob.Path] {
						continue
					}
					ob.Text += " [hidden behind an earlier failed obligation of the same path]"
				}
				// the re-run supersedes the first run: same obligations, but nothing is
				// checked under a hypothesis known to be false (this also repairs the
				// reachability covers, which a false hypothesis makes vacuous)
				fr.Obls, fr.Errs, fr.Paths = fr2.Obls, fr2.Errs, fr2.Paths
			}
		}
	}

	// raw SMT lemma files (string theory etc.), tagged in their first line: "; tags: C10"
	if files, _ := filepath.Glob(filepath.Join(*verif, "contracts", "lemmas", "*.smt2")); len(files) > 0 {
		fr := &FuncResult{Fn: "lemma files"}
		for _, f := range files {
			data, err := os.ReadFile(f)
			if err != nil {
				continue
			}
			first := strings.SplitN(string(data), "\n", 2)[0]
			if !strings.HasPrefix(first, "; tags:") || !hasTag(strings.Fields(strings.ReplaceAll(first[7:], ",", " ")), *prop) {
				continue
			}
			ob := &Obligation{Func: "lemma file", Name: "lemma-file " + filepath.Base(f), Kind: "lemma", Tags: []string{*prop}, Text: "raw SMT-LIB lemma " + filepath.Base(f)}
			ob.Result = runLemmaFile(f)
			fr.Obls = append(fr.Obls, ob)
		}
		if len(fr.Obls) > 0 {
			res = append(res, fr)
		}
	}
	known := loadKnownFindings(filepath.Join(*verif, "known_findings.txt"))
	replayDir := filepath.Join(*verif, "replay", "out")
	if d := os.Getenv("VERIF_OUT_DIR"); d != "" {
		// selftest runs must not clobber the evidence of the real tree
		replayDir = filepath.Join(d, "replay")
		if *evOut == "" {
			*evOut = filepath.Join(d, *prop+".json")
		}
	}
	os.MkdirAll(replayDir, 0o755)

	type failure struct {
		ob   *Obligation
		what string
	}
	var failures []failure
	nObl, nDis := 0, 0
	bySolver := map[string]int{}
	solverSecs := 0.0
	var samples []interface{}
	var fnList []string
	var abstracted []string
	modes := map[string]string{}
	clauseSeen := map[string]bool{}
	for _, fr := range res {
		fnList = append(fnList, shortFn(fr.Fn))
		modes[shortFn(fr.Fn)] = fr.Mode
		abstracted = append(abstracted, fr.Abstracted...)
		for _, e := range fr.Errs {
			ob := &Obligation{Func: shortFn(fr.Fn), Name: shortFn(fr.Fn) + "/bind", Kind: "bind", Text: e,
				Result: SolverResult{Status: "error", Raw: e}}
			failures = append(failures, failure{ob, "contract could not be checked against the code: " + e})
			nObl++
		}
		covers := map[string]string{}
		for _, ob := range fr.Obls {
			if ob.Cover {
				st := ob.Result.Status
				cur := covers[ob.Name]
				switch {
				case st == "sat":
					covers[ob.Name] = "sat"
				case st == "skipped":
				case st == "unsat":
					if cur == "" {
						covers[ob.Name] = "unsat"
					}
				default:
					if cur != "sat" {
						covers[ob.Name] = "unknown"
					}
				}
				continue
			}
			// Every obligation of every function in the property's closure counts: the
			// closure is "functions with a clause carrying the property's tag, plus what
			// they call", and a proof of a tagged clause in a caller rests on the whole
			// contract of each callee, whatever tags the callee's clauses carry. (Six
			// rounds of seeded changes showed that filtering by tag inside the closure
			// loses real violations; see DESIGN.md 12.14.) The only exception are the
			// lock-discipline obligations, which belong to C16 alone and are never
			// assumed by other proofs.
			lockOnly := ob.Kind == "guard" || (len(ob.Tags) == 1 && ob.Tags[0] == "C16")
			if lockOnly && *prop != "C16" {
				continue
			}
			nObl++
			clauseSeen[ob.Name] = true
			solverSecs += ob.Result.Seconds
			if ob.Result.Status == "unsat" {
				ok := true
				if all {
					// thorough: no solver may disagree, and at least two must agree when they answered
					nUnsat := 0
					for _, s := range ob.Result.All {
						if s == "sat" {
							ok = false
						}
						if s == "unsat" {
							nUnsat++
						}
					}
					if ob.Result.Solver != "syntactic" && nUnsat < 2 {
						// single-solver proofs are reported but still counted as discharged
						bySolver["single-solver"]++
					}
				}
				if ok {
					nDis++
					bySolver[ob.Result.Solver]++
					if len(samples) < 6 && ob.Result.Solver != "syntactic" {
						samples = append(samples, map[string]interface{}{"obligation": ob.Name, "kind": ob.Kind, "clause": ob.Text, "path": ob.Path,
							"status": "unsat", "solver": ob.Result.Solver, "seconds": round3(ob.Result.Seconds)})
					}
					continue
				}
			}
			failures = append(failures, failure{ob, "obligation not discharged: " + ob.Result.Status})
		}
		for _, k := range sortedKeys(covers) {
			if covers[k] == "unsat" {
				ob := &Obligation{Func: shortFn(fr.Fn), Name: k, Kind: "cover", Text: "vacuity guard: assumptions are unsatisfiable",
					Result: SolverResult{Status: "vacuous"}}
				failures = append(failures, failure{ob, "vacuous proof"})
				nObl++
			}
		}
	}
	// every clause tagged with the property must have produced at least one obligation
	for _, k := range keys {
		c := p.Contracts[k]
		for i, cl := range c.Ensures {
			if hasTag(cl.Tags, *prop) {
				name := shortFn(k) + fmt.Sprintf("/ensures#%d", i+1)
				if !clauseSeen[name] {
					ob := &Obligation{Func: shortFn(k), Name: name, Kind: "ensures", Text: cl.Text, Result: SolverResult{Status: "unreached"}}
					failures = append(failures, failure{ob, "ensures clause never reached by any path"})
					nObl++
				}
			}
		}
	}

	// report
	violations := 0
	exit := 0
	reported := map[string]bool{}
	var knownLines []string
	knownObl := 0 // failed obligation instances (one per path) that match a listed finding
	for _, f := range failures {
		for _, kf := range known {
			if kf.Kind == "known" && kf.Property == *prop && strings.Contains(f.ob.Name, kf.Obligation) && (kf.Path == "" || strings.Contains(f.ob.Path, kf.Path)) {
				knownObl++
				break
			}
		}
	}
	for _, f := range failures {
		if reported[f.ob.Name] {
			continue
		}
		reported[f.ob.Name] = true
		matched := false
		for _, kf := range known {
			if kf.Kind != "known" || kf.Property != *prop {
				continue
			}
			if strings.Contains(f.ob.Name, kf.Obligation) && (kf.Path == "" || strings.Contains(f.ob.Path, kf.Path)) {
				knownLines = append(knownLines, fmt.Sprintf("KNOWN-FINDING: property=%s %s (%s)", *prop, kf.Text, f.ob.Name))
				matched = true
				break
			}
		}
		if matched {
			continue
		}
		violations++
		exit = 1
		rp := filepath.Join(replayDir, *prop+"-"+sanitizeFile(f.ob.Name)+".json")
		rep := map[string]interface{}{
			"property": *prop, "obligation": f.ob.Name, "kind": f.ob.Kind, "clause": f.ob.Text, "pos": f.ob.Pos, "path": f.ob.Path,
			"what": f.what, "solver_status": f.ob.Result.Status, "solver": f.ob.Result.Solver, "solver_output": truncate(f.ob.Result.Raw, 20000),
			"model": f.ob.Result.Model, "per_solver": f.ob.Result.All, "replayed": false,
		}
		suffix := " no-failing-input-found"
		if violations <= 3 { // replay searches are expensive; the first few failing obligations are enough
			if ok, detail := tryReplay(p, *repo, *verif, f.ob, rep); ok {
				suffix = ""
				rep["replayed"] = true
				rep["replay_detail"] = detail
			} else {
				rep["replay_detail"] = detail
			}
		} else {
			rep["replay_detail"] = "replay skipped (earlier failing obligations of this run were replayed)"
		}
		if f.ob.Query != "" {
			qf := strings.TrimSuffix(rp, ".json") + ".smt2"
			os.WriteFile(qf, []byte(f.ob.Query), 0o644)
			rep["query_file"] = qf
		}
		data, _ := json.MarshalIndent(rep, "", " ")
		os.WriteFile(rp, data, 0o644)
		fmt.Printf("VIOLATION property=%s replay=%s%s\n", *prop, rp, suffix)
		fmt.Printf("  obligation %s [%s]: %s\n  clause: %s\n", f.ob.Name, f.ob.Result.Status, f.what, f.ob.Text)
	}
	for _, l := range knownLines {
		fmt.Println(l)
	}
	// thorough tier extras (never counted as discharged obligations):
	//  - assumption spot-checks: the layer's replay drivers run against the tree under
	//    check; they exercise the real dependencies (go-cptv writer/reader, juju bucket,
	//    bufio, yaml) behind the assumed contracts. A hit is a violation with a failing input.
	//  - the must-fail corpus for this property: every mutant must be reported.
	var spot []interface{}
	mutTotal, mutCaught := 0, 0
	var mutMissed []string
	// bounded stand-in (labelled bounded, never counted as proved): a function of /repo
	// whose contract is only assumed (mode trusted) inside this property's closure is
	// exercised by the layer's replay driver on every run, quick tier included.
	var assumedInRepo []string
	for _, k := range keys {
		fn := p.Funcs[k]
		if fn == nil {
			continue
		}
		for _, b := range fn.Blocks {
			for _, in := range b.Instrs {
				if ci, ok := in.(ssa.CallInstruction); ok {
					if callee, ok := ci.Common().Value.(*ssa.Function); ok {
						if c := p.Contracts[callee.String()]; c != nil && c.Mode == "trusted" && strings.HasPrefix(callee.String(), "(*github.com/TheCacophonyProject/thermal-recorder/motion.motionDetector)") {
							assumedInRepo = append(assumedInRepo, shortFn(callee.String()))
						}
					}
				}
			}
		}
	}
	sort.Strings(assumedInRepo)
	assumedInRepo = uniq(assumedInRepo)
	runDrivers := *tier == "thorough" || (len(assumedInRepo) > 0 && (*prop == "C15" || *prop == "C08"))
	if runDrivers && exit == 0 {
		for _, dn := range propertyDrivers[*prop] {
			for _, d := range replayDrivers {
				if d.test != dn {
					continue
				}
				hit, _ := runDriver(*repo, *verif, d, *prop)
				entry := map[string]interface{}{"driver": d.test, "package": d.pkg, "result": "no violation found"}
				if hit != "" {
					entry["result"] = hit
					if strings.HasPrefix(hit, *prop+" ") {
						violations++
						exit = 1
						rp := filepath.Join(replayDir, *prop+"-spotcheck-"+d.test+".json")
						data, _ := json.MarshalIndent(map[string]interface{}{"property": *prop, "obligation": "spot-check " + d.test, "failing_input": hit,
							"replay_driver": map[string]string{"package": d.pkg, "file": filepath.Join(*verif, "replay", "drivers", d.file), "test": d.test}, "replayed": true}, "", " ")
						os.WriteFile(rp, data, 0o644)
						fmt.Printf("VIOLATION property=%s replay=%s\n  found by the replay driver %s on the tree under check: %s\n", *prop, rp, d.test, hit)
					}
				}
				spot = append(spot, entry)
				break
			}
		}
		if *tier == "thorough" && os.Getenv("VERIF_OUT_DIR") == "" { // not inside a selftest run
			out, _ := exec.Command(filepath.Join(*verif, "selftest", "run.sh"), *prop+"-").CombinedOutput()
			for _, line := range strings.Split(string(out), "\n") {
				if strings.HasPrefix(line, "caught ") {
					mutTotal++
					mutCaught++
				} else if strings.HasPrefix(line, "MISSED ") || strings.HasPrefix(line, "SELFTEST-ERROR") {
					mutTotal++
					mutMissed = append(mutMissed, strings.TrimSpace(line))
				}
			}
			if len(mutMissed) > 0 {
				fmt.Fprintf(os.Stderr, "warning: must-fail corpus: %d of %d mutants not reported: %v\n", len(mutMissed), mutTotal, mutMissed)
			}
		}
	}
	sort.Strings(abstracted)
	abstracted = uniq(abstracted)
	assumptions := []string{
		"A0 go/packages, go/types, go/ssa (x/tools v0.29.0) and govc's SSA->SMT translation and heap encoding are trusted; so are the SMT solvers (z3 4.8.12, z3 5.1.0, cvc5 1.0.3)",
		"A1 int/int64 arithmetic is mathematical (no wrap-around); uint8/16/32/64 and int8/16/32 wrap exactly",
		"A2 float64 is real arithmetic; float32 operations are uninterpreted with separately proved lemmas",
		"A3 allocation succeeds and returns fresh storage",
		"sync.Mutex Lock/Unlock are no-ops (sequential semantics); log output is not modelled; termination is not proved",
		"callers see only callee contracts (modular); a function of the repository that has no contract, no loop and is not declared opaque is executed in place at its call (DESIGN.md 12.15); loops are cut at their invariants",
	}
	if len(p.Opaque) > 0 {
		var ops []string
		for o := range p.Opaque {
			ops = append(ops, o)
		}
		sort.Strings(ops)
		assumptions = append(assumptions, "functions of the repository abstracted at every call (declared opaque: arbitrary result, may modify what their arguments reach; not verified): "+strings.Join(ops, ", "))
	}
	if *prop == "C16" {
		assumptions = append(assumptions,
			"A-lock (C16) the lock discipline is checked access by access; that it implies data-race freedom and whole-frame snapshots is the single-writer argument of DESIGN.md 12.13, not a mechanised proof; interleavings are not enumerated; Lock's blocking and deadlock are not modelled; slice element accesses are covered by call-site assertions and frame conditions, not by per-access lock obligations; a request thread is assumed to find a fully constructed processor",
		)
	}
	if *prop == "C18" || *prop == "C14" {
		assumptions = append(assumptions,
			"A-chan (thermal-writer) goroutines are verified one by one; channel operations are events of the function's call trace. ASSUMED: Go channel semantics (FIFO, exactly-once delivery, a closed channel yields its queued values before reporting closed, a send happens-before the matching receive) and that a goroutine started under contract interferes with its parent only through the channels it was given (its frame is not checked in permissive mode). Interleavings are not enumerated; deadlock freedom is not proved",
		)
	}
	for _, t := range p.Trusted {
		assumptions = append(assumptions, t)
	}
	for _, a := range abstracted {
		assumptions = append(assumptions, "externals abstracted (permissive mode, havoc): "+shortFn(a))
	}
	ev := evidence{PropertyID: *prop, Tier: *tier, Seed: seed, Level: "proof", WallS: round3(time.Since(start).Seconds()), Violations: violations,
		Assumptions: assumptions,
		Coverage: map[string]interface{}{
			// obligations that have to hold: everything generated except the instances
			// that match an entry of known_findings.txt (counted separately below)
			"obligations":               nObl - knownObl,
			"discharged":                nDis,
			"obligations_generated":     nObl,
			"known_finding_obligations": knownObl,
			"checker_cmd":               fmt.Sprintf("govc check -prop %s -tier %s (go/ssa -> SMT-LIB2; portfolio z3-new|z3|cvc5, %ds per obligation%s)", *prop, *tier, timeout, map[bool]string{true: ", every solver run, disagreement = failure", false: ""}[all]),
			"trusted_base":              []string{"golang.org/x/tools v0.29.0 (go/packages, go/ssa)", "govc SSA->SMT translation", "z3 4.8.12", "z3 5.1.0", "cvc5 1.0.3"},
			"functions_under_contract":  fnList,
			"function_modes":            modes,
			"discharged_by_solver":      bySolver,
			"solver_seconds":            round3(solverSecs),
			"samples":                   samples,
			"hook_files":                p.hookFileReport(),
			"known_findings":            knownLines,
			"spot_checks_testing":       spot,
			"bounded_standins":          map[string]interface{}{"functions_of_repo_with_assumed_contract": assumedInRepo, "stand_in": "replay driver(s) of this property run on every tier (seeded random search, ~200k scenarios or 20 s; bounded, not a proof)"},
			"mutants_total":             mutTotal,
			"mutants_reported":          mutCaught,
			"mutants_missed":            mutMissed,
			"explanation":               "closure of the property = every function with a contract clause carrying the property's tag plus everything they call (statically, transitively) under contract; every obligation generated from /repo's current source for every function of the closure (postconditions, checks, loop invariants, call-site preconditions and assertions, frame, refinement and safety conditions) must be unsat, whatever tag its clause carries - except lock-discipline obligations, which are solved and counted in C16 only; obligations matching an entry of known_findings.txt are counted separately; vacuity guards (requires/invariants satisfiable, a return reachable) must not be unsat",
		},
	}
	evFile := *evOut
	if evFile == "" {
		evFile = filepath.Join(*verif, "evidence", *prop+".json")
	}
	os.MkdirAll(filepath.Dir(evFile), 0o755)
	data, _ := json.MarshalIndent(ev, "", " ")
	if err := os.WriteFile(evFile, data, 0o644); err != nil {
		fmt.Fprintln(os.Stderr, "engine error: cannot write evidence:", err)
		os.Exit(2)
	}
	fmt.Printf("property %s tier %s: %d functions, %d obligations, %d discharged, %d violation(s), %d known finding(s), %.1fs\n",
		*prop, *tier, len(keys), nObl, nDis, violations, len(knownLines), time.Since(start).Seconds())
	os.RemoveAll(wd) // os.Exit does not run the deferred removal
	os.Exit(exit)
}

// runLemmaFile discharges a hand-written SMT-LIB lemma (expected unsat) with cvc5 and z3.
func runLemmaFile(f string) SolverResult {
	specs := []solverSpec{
		{"cvc5", func(file string, t int) []string {
			return []string{"cvc5", "--tlimit=" + strconv.Itoa(t*1000), "--strings-exp", file}
		}},
		solverSpecs[0],
	}
	var last SolverResult
	for _, sp := range specs {
		r := runOne(context.Background(), sp, f, 30)
		if r.Status == "unsat" || r.Status == "sat" {
			return r
		}
		last = r
	}
	return last
}

func round3(f float64) float64 { return float64(int(f*1000+0.5)) / 1000 }

func truncate(s string, n int) string {
	if len(s) > n {
		return s[:n] + "...[truncated]"
	}
	return s
}

func uniq(s []string) []string {
	var out []string
	for i, x := range s {
		if i == 0 || x != s[i-1] {
			out = append(out, x)
		}
	}
	return out
}

// tryReplay is filled in by replay.go
var tryReplay = func(p *Program, repo, verif string, ob *Obligation, rep map[string]interface{}) (bool, string) {
	return false, "no replay driver for this obligation"
}
