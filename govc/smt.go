package main

// SMT-LIB2 term construction, query emission and the solver portfolio.

import (
	"bytes"
	"context"
	"crypto/sha256"
	"encoding/hex"
	"fmt"
	"os"
	"os/exec"
	"path/filepath"
	"sort"
	"strconv"
	"strings"
	"sync"
	"time"
)

type Sort struct {
	Name string // Int Bool Real Str or "" for arrays
	Idx  *Sort
	Elem *Sort
}

var (
	SInt  = &Sort{Name: "Int"}
	SBool = &Sort{Name: "Bool"}
	SReal = &Sort{Name: "Real"}
	SStr  = &Sort{Name: "Str"}
	SF32  = &Sort{Name: "F32"}
)

var arraySorts = map[string]*Sort{}
var arraySortsMu sync.Mutex

func SArray(idx, elem *Sort) *Sort {
	key := idx.String() + ">" + elem.String()
	arraySortsMu.Lock()
	defer arraySortsMu.Unlock()
	if s, ok := arraySorts[key]; ok {
		return s
	}
	s := &Sort{Idx: idx, Elem: elem}
	arraySorts[key] = s
	return s
}

func (s *Sort) String() string {
	if s.Idx != nil {
		return "(Array " + s.Idx.String() + " " + s.Elem.String() + ")"
	}
	return s.Name
}

func (s *Sort) IsArray() bool { return s.Idx != nil }

type Term struct {
	S    string
	Sort *Sort
}

func (t Term) String() string { return t.S }
func (t Term) IsZero() bool   { return t.Sort == nil }

var (
	TTrue  = Term{"true", SBool}
	TFalse = Term{"false", SBool}
)

func IntLit(v int64) Term {
	if v < 0 {
		// avoid overflow for MinInt64
		u := new(bigIntString)
		return Term{"(- " + u.neg(v) + ")", SInt}
	}
	return Term{strconv.FormatInt(v, 10), SInt}
}

type bigIntString struct{}

func (bigIntString) neg(v int64) string {
	if v == -9223372036854775808 {
		return "9223372036854775808"
	}
	return strconv.FormatInt(-v, 10)
}

func IntLitStr(dec string) Term {
	if strings.HasPrefix(dec, "-") {
		return Term{"(- " + dec[1:] + ")", SInt}
	}
	return Term{dec, SInt}
}

func RealLitStr(dec string) Term {
	neg := strings.HasPrefix(dec, "-")
	if neg {
		dec = dec[1:]
	}
	if !strings.Contains(dec, ".") && !strings.Contains(dec, "/") {
		dec = dec + ".0"
	}
	if i := strings.Index(dec, "/"); i >= 0 {
		a, b := dec[:i], dec[i+1:]
		if !strings.Contains(a, ".") {
			a += ".0"
		}
		if !strings.Contains(b, ".") {
			b += ".0"
		}
		dec = "(/ " + a + " " + b + ")"
	}
	if neg {
		return Term{"(- " + dec + ")", SReal}
	}
	return Term{dec, SReal}
}

func BoolLit(b bool) Term {
	if b {
		return TTrue
	}
	return TFalse
}

func intLitVal(t Term) (int64, bool) {
	if t.Sort != SInt {
		return 0, false
	}
	s := t.S
	if strings.HasPrefix(s, "(- ") && strings.HasSuffix(s, ")") {
		v, err := strconv.ParseInt(s[3:len(s)-1], 10, 64)
		if err != nil {
			return 0, false
		}
		return -v, true
	}
	v, err := strconv.ParseInt(s, 10, 64)
	if err != nil {
		return 0, false
	}
	return v, true
}

func App(sort *Sort, op string, args ...Term) Term {
	var b strings.Builder
	b.WriteByte('(')
	b.WriteString(op)
	for _, a := range args {
		b.WriteByte(' ')
		b.WriteString(a.S)
	}
	b.WriteByte(')')
	return Term{b.String(), sort}
}

func Not(a Term) Term {
	switch a.S {
	case "true":
		return TFalse
	case "false":
		return TTrue
	}
	if strings.HasPrefix(a.S, "(not ") {
		return Term{a.S[5 : len(a.S)-1], SBool}
	}
	return App(SBool, "not", a)
}

func And(as ...Term) Term {
	var out []Term
	seen := map[string]bool{}
	for _, a := range as {
		if a.S == "true" {
			continue
		}
		if a.S == "false" {
			return TFalse
		}
		if seen[a.S] {
			continue
		}
		seen[a.S] = true
		out = append(out, a)
	}
	if len(out) == 0 {
		return TTrue
	}
	if len(out) == 1 {
		return out[0]
	}
	return App(SBool, "and", out...)
}

func Or(as ...Term) Term {
	var out []Term
	seen := map[string]bool{}
	for _, a := range as {
		if a.S == "false" {
			continue
		}
		if a.S == "true" {
			return TTrue
		}
		if seen[a.S] {
			continue
		}
		seen[a.S] = true
		out = append(out, a)
	}
	if len(out) == 0 {
		return TFalse
	}
	if len(out) == 1 {
		return out[0]
	}
	return App(SBool, "or", out...)
}

func Implies(a, b Term) Term {
	if a.S == "true" {
		return b
	}
	if a.S == "false" || b.S == "true" {
		return TTrue
	}
	return App(SBool, "=>", a, b)
}

func Eq(a, b Term) Term {
	if a.S == b.S {
		return TTrue
	}
	if a.Sort != b.Sort {
		a, b = coerce(a, b)
	}
	if a.Sort == SBool {
		if b.S == "true" {
			return a
		}
		if b.S == "false" {
			return Not(a)
		}
		if a.S == "true" {
			return b
		}
		if a.S == "false" {
			return Not(b)
		}
	}
	if av, ok := intLitVal(a); ok {
		if bv, ok := intLitVal(b); ok {
			return BoolLit(av == bv)
		}
	}
	return App(SBool, "=", a, b)
}

func Neq(a, b Term) Term { return Not(Eq(a, b)) }

// coerce Int/Real mixes to Real.
func coerce(a, b Term) (Term, Term) {
	if a.Sort == SInt && b.Sort == SReal {
		return ToReal(a), b
	}
	if a.Sort == SReal && b.Sort == SInt {
		return a, ToReal(b)
	}
	return a, b
}

func ToReal(a Term) Term {
	if a.Sort == SReal {
		return a
	}
	if _, ok := intLitVal(a); ok {
		if strings.HasPrefix(a.S, "(- ") {
			return Term{"(- " + a.S[3:len(a.S)-1] + ".0)", SReal}
		}
		return Term{a.S + ".0", SReal}
	}
	return App(SReal, "to_real", a)
}

func Ite(c, a, b Term) Term {
	if c.S == "true" {
		return a
	}
	if c.S == "false" {
		return b
	}
	if a.S == b.S {
		return a
	}
	if a.Sort != b.Sort {
		a, b = coerce(a, b)
	}
	if a.Sort == SBool {
		if a.S == "true" && b.S == "false" {
			return c
		}
		if a.S == "false" && b.S == "true" {
			return Not(c)
		}
	}
	return App(a.Sort, "ite", c, a, b)
}

func arith(op string, a, b Term) Term {
	if a.Sort != b.Sort {
		a, b = coerce(a, b)
	}
	if av, ok := intLitVal(a); ok {
		if bv, ok := intLitVal(b); ok {
			switch op {
			case "+":
				if r := av + bv; (r > av) == (bv > 0) {
					return IntLit(r)
				}
			case "-":
				if r := av - bv; (r < av) == (bv > 0) {
					return IntLit(r)
				}
			case "*":
				if av == 0 || bv == 0 {
					return IntLit(0)
				}
				if r := av * bv; r/bv == av && abs64(av) < 1<<31 && abs64(bv) < 1<<31 {
					return IntLit(r)
				}
			}
		}
	}
	if op == "+" && a.Sort == SInt {
		// a + (x - a) = x ; (x - a) + a = x
		if strings.HasPrefix(b.S, "(- ") && strings.HasSuffix(b.S, " "+a.S+")") {
			inner := b.S[3 : len(b.S)-len(a.S)-2]
			if balanced(inner) {
				return Term{inner, SInt}
			}
		}
		if strings.HasPrefix(a.S, "(- ") && strings.HasSuffix(a.S, " "+b.S+")") {
			inner := a.S[3 : len(a.S)-len(b.S)-2]
			if balanced(inner) {
				return Term{inner, SInt}
			}
		}
	}
	if op == "+" {
		if v, ok := intLitVal(b); ok && v == 0 {
			return a
		}
		if v, ok := intLitVal(a); ok && v == 0 {
			return b
		}
	}
	if op == "-" {
		if v, ok := intLitVal(b); ok && v == 0 {
			return a
		}
	}
	if op == "*" {
		if v, ok := intLitVal(b); ok && v == 1 {
			return a
		}
		if v, ok := intLitVal(a); ok && v == 1 {
			return b
		}
	}
	return App(a.Sort, op, a, b)
}

// balanced reports whether s is a single well-formed term (atom or one s-expression).
func balanced(s string) bool {
	if s == "" {
		return false
	}
	depth := 0
	inBar := false
	for i := 0; i < len(s); i++ {
		c := s[i]
		if c == '|' {
			inBar = !inBar
			continue
		}
		if inBar {
			continue
		}
		switch c {
		case '(':
			depth++
		case ')':
			depth--
			if depth < 0 {
				return false
			}
			if depth == 0 && i != len(s)-1 {
				return false
			}
		case ' ':
			if depth == 0 {
				return false
			}
		}
	}
	return depth == 0 && !inBar
}

func abs64(v int64) int64 {
	if v < 0 {
		return -v
	}
	return v
}

func Add(a, b Term) Term { return arith("+", a, b) }
func Sub(a, b Term) Term { return arith("-", a, b) }
func Mul(a, b Term) Term { return arith("*", a, b) }
func Neg(a Term) Term {
	if v, ok := intLitVal(a); ok {
		return IntLit(-v)
	}
	return App(a.Sort, "-", a)
}

func cmp(op string, a, b Term) Term {
	if a.Sort != b.Sort {
		a, b = coerce(a, b)
	}
	if av, ok := intLitVal(a); ok {
		if bv, ok := intLitVal(b); ok {
			switch op {
			case "<":
				return BoolLit(av < bv)
			case "<=":
				return BoolLit(av <= bv)
			case ">":
				return BoolLit(av > bv)
			case ">=":
				return BoolLit(av >= bv)
			}
		}
	}
	return App(SBool, op, a, b)
}

func Lt(a, b Term) Term { return cmp("<", a, b) }
func Le(a, b Term) Term { return cmp("<=", a, b) }
func Gt(a, b Term) Term { return cmp(">", a, b) }
func Ge(a, b Term) Term { return cmp(">=", a, b) }

// Go truncated division / remainder on mathematical integers.
func GoDiv(a, b Term) Term {
	if a.Sort == SReal || b.Sort == SReal {
		a, b = coerce(a, b)
		return App(SReal, "/", a, b)
	}
	// SMT div is floor for positive divisor / euclidean. t = a div b (euclid): a = b*q + r, 0<=r<|b|
	// trunc: if a >= 0 then (div a b) else (- (div (- a) b))
	if av, ok := intLitVal(a); ok {
		if bv, ok := intLitVal(b); ok && bv != 0 {
			return IntLit(av / bv)
		}
	}
	return Ite(Ge(a, IntLit(0)), App(SInt, "div", a, b), Neg(App(SInt, "div", Neg(a), b)))
}

func GoRem(a, b Term) Term {
	if av, ok := intLitVal(a); ok {
		if bv, ok := intLitVal(b); ok && bv != 0 {
			return IntLit(av % bv)
		}
	}
	// sign follows dividend
	return Ite(Ge(a, IntLit(0)), App(SInt, "mod", a, b), Neg(App(SInt, "mod", Neg(a), b)))
}

func Select(arr, idx Term) Term {
	if !arr.Sort.IsArray() {
		panic("select on non-array " + arr.S + " : " + arr.Sort.String())
	}
	return App(arr.Sort.Elem, "select", arr, idx)
}

func Store(arr, idx, v Term) Term {
	if !arr.Sort.IsArray() {
		panic("store on non-array " + arr.S)
	}
	if v.Sort != arr.Sort.Elem {
		if arr.Sort.Elem == SReal && v.Sort == SInt {
			v = ToReal(v)
		} else {
			panic(fmt.Sprintf("store sort mismatch: array %s elem %s value %s:%s", arr.S, arr.Sort.Elem, v.S, v.Sort))
		}
	}
	return App(arr.Sort, "store", arr, idx, v)
}

func Min(a, b Term) Term { return Ite(Le(a, b), a, b) }
func Max(a, b Term) Term { return Ite(Ge(a, b), a, b) }

type BoundVar struct {
	Name string
	Sort *Sort
}

func Forall(vars []BoundVar, body Term, patterns ...[]Term) Term {
	return quant("forall", vars, body, patterns)
}
func Exists(vars []BoundVar, body Term) Term { return quant("exists", vars, body, nil) }

func quant(q string, vars []BoundVar, body Term, patterns [][]Term) Term {
	if body.S == "true" || body.S == "false" {
		return body
	}
	var b strings.Builder
	b.WriteString("(" + q + " (")
	for _, v := range vars {
		b.WriteString("(" + v.Name + " " + v.Sort.String() + ")")
	}
	b.WriteString(") ")
	if len(patterns) > 0 {
		b.WriteString("(! " + body.S)
		for _, p := range patterns {
			b.WriteString(" :pattern (")
			for i, t := range p {
				if i > 0 {
					b.WriteByte(' ')
				}
				b.WriteString(t.S)
			}
			b.WriteString(")")
		}
		b.WriteString(")")
	} else {
		b.WriteString(body.S)
	}
	b.WriteString(")")
	return Term{b.String(), SBool}
}

// ---------------------------------------------------------------------------
// Query context: a persistent (shared-prefix) list of declarations and assumptions.

type ctxNode struct {
	parent *ctxNode
	decl   string // SMT command (declare/define), or "" for an assumption
	assume Term
	note   string
	depth  int
}

type Ctx struct{ n *ctxNode }

func (c Ctx) push(n *ctxNode) Ctx {
	n.parent = c.n
	if c.n != nil {
		n.depth = c.n.depth + 1
	}
	return Ctx{n}
}

func (c Ctx) Decl(cmd string) Ctx { return c.push(&ctxNode{decl: cmd}) }
func (c Ctx) Assume(t Term, note string) Ctx {
	if t.S == "true" {
		return c
	}
	return c.push(&ctxNode{assume: t, note: note})
}

func (c Ctx) lines() []*ctxNode {
	var out []*ctxNode
	for n := c.n; n != nil; n = n.parent {
		out = append(out, n)
	}
	for i, j := 0, len(out)-1; i < j; i, j = i+1, j-1 {
		out[i], out[j] = out[j], out[i]
	}
	return out
}

// ---------------------------------------------------------------------------
// Solvers

type SolverResult struct {
	Status  string // unsat sat unknown timeout error
	Solver  string
	Seconds float64
	Model   string
	Raw     string
	All     map[string]string // per-solver status (thorough tier)
}

type solverSpec struct {
	name string
	argv func(file string, timeoutS int) []string
}

var solverSpecs = []solverSpec{
	{"z3-new", func(f string, t int) []string { return []string{"z3-new", "-T:" + strconv.Itoa(t), f} }},
	{"z3", func(f string, t int) []string { return []string{"z3", "-T:" + strconv.Itoa(t), f} }},
	{"cvc5", func(f string, t int) []string {
		return []string{"cvc5", "--tlimit=" + strconv.Itoa(t*1000), "--produce-models", "--incremental", f}
	}},
}

func runOne(ctx context.Context, sp solverSpec, file string, timeoutS int) SolverResult {
	start := time.Now()
	argv := sp.argv(file, timeoutS)
	cctx, cancel := context.WithTimeout(ctx, time.Duration(timeoutS+2)*time.Second)
	defer cancel()
	cmd := exec.CommandContext(cctx, argv[0], argv[1:]...)
	var out bytes.Buffer
	cmd.Stdout = &out
	cmd.Stderr = &out
	_ = cmd.Run()
	res := SolverResult{Solver: sp.name, Seconds: time.Since(start).Seconds(), Raw: out.String()}
	first := strings.TrimSpace(out.String())
	if i := strings.IndexByte(first, '\n'); i >= 0 {
		res.Model = strings.TrimSpace(first[i+1:])
		first = strings.TrimSpace(first[:i])
	}
	switch first {
	case "unsat", "sat", "unknown":
		res.Status = first
	case "timeout":
		res.Status = "timeout"
	default:
		if cctx.Err() != nil {
			res.Status = "timeout"
		} else if strings.Contains(first, "timeout") || strings.Contains(out.String(), "interrupted by timeout") {
			res.Status = "timeout"
		} else {
			res.Status = "error"
		}
	}
	if res.Status == "unsat" {
		res.Model = ""
	}
	return res
}

// Solve races the portfolio; the first definitive (sat/unsat) answer wins. With
// all=true every solver is run to completion and the per-solver answers are kept.
func Solve(query string, dir string, name string, timeoutS int, all bool, retry bool) SolverResult {
	if !all {
		// fast path: one solver with a short budget; anything but unsat goes to the full race
		r := solveWith(solverSpecs[:1], query, dir, name, 2, false, false)
		if r.Status == "unsat" {
			return r
		}
	}
	r := solveWith(solverSpecs, query, dir, name, timeoutS, all, false)
	timedOut := r.Status == "timeout"
	for _, st := range r.All {
		if st == "timeout" {
			timedOut = true
		}
	}
	if retry && timedOut && (r.Status == "timeout" || r.Status == "unknown") && !all {
		// every solver ran out of time: on a loaded machine that says little, so the
		// race is repeated once with three times the budget before the obligation
		// is reported as not discharged
		r2 := solveWith(solverSpecs, query, dir, name, 3*timeoutS, all, false)
		if r2.Status == "unsat" || r2.Status == "sat" {
			return r2
		}
	}
	return r
}

// SolveCover answers a vacuity guard: only "unsat" matters, so the first answer
// of any kind wins and the budget is small.
func SolveCover(query string, dir string, name string) SolverResult {
	return solveWith(solverSpecs, query, dir, name, 3, false, true)
}

func solveWith(specs []solverSpec, query string, dir string, name string, timeoutS int, all bool, anyAnswer bool) SolverResult {
	h := sha256.Sum256([]byte(query))
	file := filepath.Join(dir, sanitizeFile(name)+"-"+hex.EncodeToString(h[:6])+".smt2")
	if err := os.WriteFile(file, []byte(query), 0o644); err != nil {
		return SolverResult{Status: "error", Raw: err.Error()}
	}
	hasQuant := strings.Contains(query, "(forall ") || strings.Contains(query, "(exists ")
	_ = hasQuant
	ctx, cancel := context.WithCancel(context.Background())
	defer cancel()
	ch := make(chan SolverResult, len(specs))
	for _, sp := range specs {
		sp := sp
		go func() { ch <- runOne(ctx, sp, file, timeoutS) }()
	}
	var best SolverResult
	allRes := map[string]string{}
	got := 0
	for got < len(specs) {
		r := <-ch
		got++
		allRes[r.Solver] = r.Status
		definitive := r.Status == "sat" || r.Status == "unsat"
		if anyAnswer && (r.Status == "unknown" || definitive) {
			best = r
			break
		}
		if definitive && (best.Status != "sat" && best.Status != "unsat") {
			best = r
			if !all {
				break
			}
		} else if best.Status == "" || (best.Status == "error" && r.Status != "error") {
			best = r
		} else if definitive && all && r.Status != best.Status {
			// disagreement between solvers: report as error, never as a pass
			best = SolverResult{Status: "error", Solver: "portfolio", Raw: "solver disagreement: " + fmt.Sprint(allRes)}
		}
	}
	best.All = allRes
	if best.Status == "unsat" && os.Getenv("GOVC_KEEP") == "" {
		os.Remove(file)
	}
	return best
}

func sanitizeFile(s string) string {
	var b strings.Builder
	for _, r := range s {
		switch {
		case r >= 'a' && r <= 'z', r >= 'A' && r <= 'Z', r >= '0' && r <= '9', r == '-', r == '_', r == '.':
			b.WriteRune(r)
		default:
			b.WriteByte('_')
		}
	}
	out := b.String()
	if len(out) > 120 {
		out = out[len(out)-120:]
	}
	return out
}

func sortedKeys[V any](m map[string]V) []string {
	ks := make([]string, 0, len(m))
	for k := range m {
		ks = append(ks, k)
	}
	sort.Strings(ks)
	return ks
}
