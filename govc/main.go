package main

import (
	"flag"
	"fmt"
	"os"
	"regexp"
	"runtime"
	"sort"
	"strings"
	"sync"
	"time"

	"golang.org/x/tools/go/ssa"
)

type runOpts struct {
	repo, specs, workdir string
	timeout              int
	all                  bool
	verbose              bool
	maxPaths             int
	lemmas               []LemmaDecl
}

type FuncResult struct {
	Fn         string
	Errs       []string
	Obls       []*Obligation
	Paths      int
	Abstracted []string
	Mode       string
	GenSeconds float64
}

// verifyFuncs generates and discharges the obligations of the selected functions.
// skipLockOnlyFor: the property being checked (set by cmdCheck).
var skipLockOnlyFor string

func verifyFuncs(p *Program, keys []string, o runOpts) []*FuncResult {
	type job struct {
		ob *Obligation
	}
	jobs := make(chan *Obligation, 4096)
	var wg sync.WaitGroup
	workers := runtime.NumCPU()
	// each query races three solvers, so run fewer queries at once
	if workers > 4 {
		workers = workers - 2
	}
	var coverMu sync.Mutex
	coverSat := map[string]bool{}
	for i := 0; i < workers; i++ {
		wg.Add(1)
		go func() {
			defer wg.Done()
			for ob := range jobs {
				if skipLockOnlyFor != "" && skipLockOnlyFor != "C16" && (ob.Kind == "guard" || (len(ob.Tags) == 1 && ob.Tags[0] == "C16")) {
					// lock-discipline obligations belong to C16 alone and are never assumed
					// by anything else: other properties' checks do not spend time on them
					ob.Result = SolverResult{Status: "skipped"}
					ob.Query = ""
					continue
				}
				if ob.Cover {
					coverMu.Lock()
					done := coverSat[ob.Name]
					coverMu.Unlock()
					if done {
						ob.Result = SolverResult{Status: "skipped"}
						ob.Query = ""
						continue
					}
				}
				if ob.Cover {
					ob.Result = SolveCover(ob.Query, o.workdir, ob.Name)
				} else {
					ob.Result = Solve(ob.Query, o.workdir, ob.Name, o.timeout, o.all, !(ob.Kind == "guard" || (len(ob.Tags) == 1 && ob.Tags[0] == "C16")))
				}
				if ob.Cover && (ob.Result.Status == "sat" || ob.Result.Status == "unknown") {
					coverMu.Lock()
					coverSat[ob.Name] = true
					coverMu.Unlock()
				}
				if ob.Result.Status == "unsat" || ob.Cover {
					ob.Query = ""
				}
			}
		}()
	}
	var results []*FuncResult
	var rmu sync.Mutex
	for _, l := range o.lemmas {
		fr := &FuncResult{Fn: "lemma " + l.Name}
		results = append(results, fr)
		fr.Errs = verifyLemma(p, l, func(ob *Obligation) {
			fr.Obls = append(fr.Obls, ob)
			if ob.Query != "" {
				jobs <- ob
			}
		})
	}
	var fwg sync.WaitGroup
	sem := make(chan struct{}, 4)
	for _, k := range keys {
		k := k
		fn := p.Funcs[k]
		c := p.Contracts[k]
		fr := &FuncResult{Fn: k, Mode: c.Mode}
		results = append(results, fr)
		if fn == nil {
			fr.Errs = append(fr.Errs, "contract names a function that does not exist in the code: "+k)
			continue
		}
		fwg.Add(1)
		sem <- struct{}{}
		go func(fn *ssa.Function) {
			defer fwg.Done()
			defer func() { <-sem }()
			emit := func(ob *Obligation) {
				rmu.Lock()
				fr.Obls = append(fr.Obls, ob)
				rmu.Unlock()
				if ob.Query != "" {
					jobs <- ob
				}
			}
			t0 := time.Now()
			fe := verifyFunction(p, fn, c, emit, o.maxPaths)
			fr.GenSeconds = time.Since(t0).Seconds()
			fr.Errs = fe.errs
			fr.Paths = fe.paths
			fr.Abstracted = fe.abstracted
		}(fn)
	}
	fwg.Wait()
	close(jobs)
	wg.Wait()
	return results
}

func main() {
	if len(os.Args) < 2 {
		fmt.Fprintln(os.Stderr, "usage: govc verify|check ...")
		os.Exit(2)
	}
	switch os.Args[1] {
	case "verify":
		cmdVerify(os.Args[2:])
	case "check":
		cmdCheck(os.Args[2:])
	case "replay":
		cmdReplay(os.Args[2:])
	default:
		fmt.Fprintln(os.Stderr, "unknown command", os.Args[1])
		os.Exit(2)
	}
}

func cmdVerify(args []string) {
	fs := flag.NewFlagSet("verify", flag.ExitOnError)
	repo := fs.String("repo", "/repo", "repository")
	specs := fs.String("specs", "/verif/contracts", "directory with *.spec files")
	pat := fs.String("func", ".", "regexp selecting functions under contract")
	timeout := fs.Int("timeout", 10, "solver timeout (s)")
	work := fs.String("work", "", "work dir for queries")
	verbose := fs.Bool("v", false, "verbose")
	all := fs.Bool("all", false, "run every solver")
	maxPaths := fs.Int("maxpaths", 4096, "path budget per function")
	fs.Parse(args)
	start := time.Now()
	p, err := loadProgram(*repo, *specs)
	if err != nil {
		fmt.Fprintln(os.Stderr, "engine error:", err)
		os.Exit(2)
	}
	fmt.Fprintf(os.Stderr, "loaded in %.1fs: %d contracts, %d spec funcs, hook files %v\n", time.Since(start).Seconds(), len(p.Contracts), len(p.SpecFuncs), p.hookFileReport())
	re := regexp.MustCompile(*pat)
	var keys []string
	for k, c := range p.Contracts {
		if c.Kind != "func" || c.Mode == "trusted" {
			continue
		}
		if re.MatchString(k) {
			keys = append(keys, k)
		}
	}
	sort.Strings(keys)
	wd := *work
	if wd == "" {
		wd, _ = os.MkdirTemp("", "govc-")
		defer os.RemoveAll(wd)
	} else {
		os.MkdirAll(wd, 0o755)
	}
	res := verifyFuncs(p, keys, runOpts{repo: *repo, specs: *specs, workdir: wd, timeout: *timeout, all: *all, verbose: *verbose, maxPaths: *maxPaths})
	bad := 0
	for _, fr := range res {
		nOK, nBad := 0, 0
		for _, ob := range fr.Obls {
			if ob.Cover {
				continue
			}
			if ob.Result.Status == "unsat" {
				nOK++
			} else {
				nBad++
			}
		}
		fmt.Printf("%-70s paths=%d obligations=%d discharged=%d failed=%d gen=%.1fs\n", shortFn(fr.Fn), fr.Paths, nOK+nBad, nOK, nBad, fr.GenSeconds)
		for _, e := range fr.Errs {
			fmt.Printf("   ERROR %s\n", e)
			bad++
		}
		covers := map[string]string{}
		for _, ob := range fr.Obls {
			if ob.Cover {
				if ob.Result.Status == "sat" || covers[ob.Name] == "sat" {
					covers[ob.Name] = "sat"
				} else if ob.Result.Status != "skipped" && covers[ob.Name] != "unknown" {
					if ob.Result.Status == "unsat" && covers[ob.Name] == "" {
						covers[ob.Name] = "unsat"
					} else if ob.Result.Status != "unsat" {
						covers[ob.Name] = "unknown"
					}
				}
				continue
			}
			if ob.Result.Status != "unsat" {
				bad++
				fmt.Printf("   FAIL %s [%s] %s (%s %.2fs) path=%s\n        %s\n", ob.Name, strings.Join(ob.Tags, ","), ob.Result.Status, ob.Result.Solver, ob.Result.Seconds, ob.Path, ob.Text)
				if *verbose && ob.Result.Model != "" {
					fmt.Printf("        model: %s\n", strings.ReplaceAll(ob.Result.Model, "\n", " "))
				}
			} else if *verbose {
				fmt.Printf("   ok   %s (%s %.2fs)\n", ob.Name, ob.Result.Solver, ob.Result.Seconds)
			}
		}
		for _, k := range sortedKeys(covers) {
			if covers[k] == "unsat" {
				bad++
				fmt.Printf("   VACUOUS %s: assumptions unsatisfiable\n", k)
			}
		}
	}
	fmt.Fprintf(os.Stderr, "total %.1fs\n", time.Since(start).Seconds())
	if bad > 0 {
		os.Exit(1)
	}
}
