package main

// Replay: when an obligation fails, the layer's replay driver (a Go test injected
// with `go test -overlay`, nothing is written into the repository) searches the
// REAL code for a failing input / history, guided by reference monitors written
// from the property statements. A hit turns the report into a demonstrated
// violation; no hit leaves "no-failing-input-found". Replay never decides a
// property (the obligations do); it only substantiates a failed obligation.

import (
	"bufio"
	"encoding/json"
	"flag"
	"fmt"
	"os"
	"os/exec"
	"path/filepath"
	"strings"
	"time"
)

type replayDriver struct {
	match []string // substrings of the obligation's function name
	pkg   string   // package directory under the repo
	file  string   // driver file under <verif>/replay/drivers
	test  string   // test name regexp
}

var replayDrivers = []replayDriver{
	{[]string{"motion.FrameLoop", "motion.NewFrameLoop"}, "motion", "ring_replay_test.go", "TestReplayRing"},
	{[]string{"motion.MotionProcessor", "motion.NewMotionProcessor", "motion.min", "motion.isNullOrNullPointer"}, "motion", "processor_replay_test.go", "TestReplayProcessor"},
	{[]string{"motion.motionDetector", "motion.absDiff", "motion.warmerDiff", "motion.isAffectedByFFC", "motion.NewMotionDetector", "lemma coldClamp"}, "motion", "detector_replay_test.go", "TestReplayDetector"},
	{[]string{"throttle."}, "throttle", "throttle_replay_test.go", "TestReplayThrottle"},
	{[]string{"loglimiter."}, "loglimiter", "limiter_replay_test.go", "TestReplayLimiter"},
	{[]string{"headers."}, "headers", "headers_replay_test.go", "TestReplayHeaders"},
	{[]string{"motion.FrameLoop).CopyRecent", "motion.FrameLoop).Move", "motion.FrameLoop).Reset", "motion.MotionProcessor).GetRecentFrame", "cmd/thermal-recorder.newSnapshot"}, "motion", "race_replay_test.go", "TestReplayRace"},
	{[]string{"cmd/thermal-recorder.ParseConfig", "cmd/thermal-recorder.Config).LoadMotionConfig", "recorder.NewConfig", "throttle.NewConfig", "motion.NewConfig", "motion.validateConfig"}, "cmd/thermal-recorder", "config_replay_test.go", "TestReplayConfig"},
	{[]string{"cmd/thermal-writer."}, "cmd/thermal-writer", "writer_replay_test.go", "TestReplayWriter"},
	{[]string{"cmd/thermal-recorder.handleConn", "cmd/thermal-recorder.runMain"}, "cmd/thermal-recorder", "conn_replay_test.go", "TestReplayConn"},
	{[]string{"cmd/thermal-recorder.convertRawBosonFrame", "cmd/thermal-recorder.frameParser"}, "cmd/thermal-recorder", "boson_replay_test.go", "TestReplayBoson"},
	{[]string{"cmd/thermal-recorder.CPTVFileRecorder", "cmd/thermal-recorder.NewCPTVFileRecorder", "cmd/thermal-recorder.deleteTempFiles", "cmd/thermal-recorder.newRecordingTempName",
		"cmd/thermal-recorder.renameTempRecording", "cmd/thermal-recorder.recordingFinalName", "cmd/thermal-recorder.init", "lemma-file temp_glob"}, "cmd/thermal-recorder", "boson_replay_test.go", "TestReplayFileRecorder"},
}

// drivers run as spot-checks in the thorough tier, per property
var propertyDrivers = map[string][]string{
	"C01": {"TestReplayProcessor", "TestReplayRing"}, "C02": {"TestReplayProcessor", "TestReplayRing"}, "C03": {"TestReplayProcessor"},
	"C04": {"TestReplayProcessor"}, "C12": {"TestReplayProcessor", "TestReplayFileRecorder"}, "C17": {"TestReplayProcessor"},
	"C13": {"TestReplayProcessor", "TestReplayBoson"}, "C05": {"TestReplayThrottle"}, "C06": {"TestReplayThrottle"},
	"C07": {"TestReplayDetector"}, "C08": {"TestReplayDetector"}, "C09": {"TestReplayDetector"}, "C15": {"TestReplayDetector"},
	"C10": {"TestReplayFileRecorder"}, "C11": {"TestReplayFileRecorder", "TestReplayConn", "TestReplayConfig"}, "C14": {"TestReplayHeaders", "TestReplayWriter", "TestReplayConn"}, "C18": {"TestReplayWriter"}, "C16": {"TestReplayRace"}, "C19": {"TestReplayRing"}, "C20": {"TestReplayLimiter"},
}

// a failing obligation in the motion processor is often caused one layer down
var replayFallback = map[string][]string{
	"processor_replay_test.go": {"ring_replay_test.go", "detector_replay_test.go"},
	"detector_replay_test.go":  {"ring_replay_test.go"},
	"ring_replay_test.go":      {"processor_replay_test.go"},
}

func driverFor(fn string) []replayDriver {
	var out []replayDriver
	for _, d := range replayDrivers {
		for _, m := range d.match {
			if strings.Contains(fn, m) {
				out = append(out, d)
				break
			}
		}
	}
	if len(out) > 0 {
		for _, fb := range replayFallback[out[0].file] {
			for _, d := range replayDrivers {
				if d.file == fb {
					out = append(out, d)
				}
			}
		}
	}
	return out
}

func runDriver(repo, verif string, d replayDriver, prop string) (hit string, output string) {
	script := filepath.Join(verif, "replay", "run_driver.sh")
	cmd := exec.Command(script, repo, d.pkg, filepath.Join(verif, "replay", "drivers", d.file), d.test)
	cmd.Env = os.Environ()
	done := make(chan struct{})
	var out []byte
	go func() {
		out, _ = cmd.CombinedOutput()
		close(done)
	}()
	select {
	case <-done:
	case <-time.After(150 * time.Second):
		if cmd.Process != nil {
			cmd.Process.Kill()
		}
		<-done
	}
	output = string(out)
	sc := bufio.NewScanner(strings.NewReader(output))
	sc.Buffer(make([]byte, 1<<20), 1<<22)
	panicLine := ""
	for sc.Scan() {
		line := sc.Text()
		if strings.HasPrefix(line, "REPLAY-VIOLATION ") {
			return strings.TrimPrefix(line, "REPLAY-VIOLATION "), output
		}
		if strings.HasPrefix(line, "panic: ") && panicLine == "" {
			panicLine = line
		}
		if strings.HasPrefix(line, "WARNING: DATA RACE") {
			// the race detector's report follows; keep the two access lines
			rest := ""
			for i := 0; i < 12 && sc.Scan(); i++ {
				l := strings.TrimSpace(sc.Text())
				if strings.HasPrefix(l, "Write at") || strings.HasPrefix(l, "Read at") || strings.HasPrefix(l, "Previous") || strings.Contains(l, "thermal-recorder/") {
					rest += " | " + l
				}
			}
			return "C16 the race detector reports a data race on the real code" + rest, output
		}
	}
	if panicLine != "" {
		return "C12 the real code panics under the replay driver: " + panicLine, output
	}
	return "", output
}

func init() {
	tryReplay = func(p *Program, repo, verif string, ob *Obligation, rep map[string]interface{}) (bool, string) {
		ds := driverFor(ob.Func + " " + ob.Name)
		if len(ds) == 0 {
			return false, "no replay driver covers this function"
		}
		var tried []string
		for _, d := range ds {
			hit, _ := runDriver(repo, verif, d, "")
			tried = append(tried, d.test)
			if hit != "" {
				rep["replay_driver"] = map[string]string{"package": d.pkg, "file": filepath.Join(verif, "replay", "drivers", d.file), "test": d.test}
				rep["failing_input"] = hit
				return true, "reproduced on the real code by " + d.test + ": " + hit
			}
		}
		return false, "replay drivers " + strings.Join(tried, ", ") + " found no failing input within their budget"
	}
}

var replayCache = map[string]string{}

// cmdReplay re-runs the driver recorded in a replay file against /repo.
func cmdReplay(args []string) {
	fs := flag.NewFlagSet("replay", flag.ExitOnError)
	verif := fs.String("verif", "/verif", "verif directory")
	repo := fs.String("repo", "/repo", "repository")
	file := fs.String("file", "", "replay file written by a failed check")
	fs.Parse(args)
	data, err := os.ReadFile(*file)
	if err != nil {
		fmt.Fprintln(os.Stderr, "replay:", err)
		os.Exit(2)
	}
	var rep map[string]interface{}
	if err := json.Unmarshal(data, &rep); err != nil {
		fmt.Fprintln(os.Stderr, "replay:", err)
		os.Exit(2)
	}
	fmt.Printf("obligation: %v\nclause: %v\nsolver: %v\n", rep["obligation"], rep["clause"], rep["solver_status"])
	drv, ok := rep["replay_driver"].(map[string]interface{})
	if !ok {
		fmt.Println("no failing input was found for this obligation (see solver_output / query_file in the replay file)")
		os.Exit(1)
	}
	d := replayDriver{pkg: fmt.Sprint(drv["package"]), file: filepath.Base(fmt.Sprint(drv["file"])), test: fmt.Sprint(drv["test"])}
	hit, out := runDriver(*repo, *verif, d, "")
	if hit == "" {
		fmt.Println("not reproduced on the current tree")
		fmt.Println(truncate(out, 2000))
		os.Exit(0)
	}
	fmt.Println("REPRODUCED:", hit)
	os.Exit(1)
}
