package main

// Loading /repo (go/packages + go/ssa), collecting the contract files, and the
// registry that binds contracts, ghost fields and spec functions to the code.

import (
	"bufio"
	"fmt"
	"go/ast"
	"go/types"
	"os"
	"path/filepath"
	"sort"
	"strings"

	"golang.org/x/tools/go/packages"
	"golang.org/x/tools/go/ssa"
	"golang.org/x/tools/go/ssa/ssautil"
)

type GhostField struct {
	Owner   string // type key
	Name    string
	Type    types.Type
	IsIface bool
}

type Program struct {
	RepoDir   string
	Pkgs      []*packages.Package
	AllPkgs   map[string]*packages.Package // by path
	ByName    map[string][]*packages.Package
	Prog      *ssa.Program
	Funcs     map[string]*ssa.Function // by fn.String()
	Contracts map[string]*FuncContract
	SpecFuncs map[string]*SpecFunc   // by Key()
	Ghosts    map[string]*GhostField // owner key + "." + name
	Axioms    []AxiomDecl
	Lemmas    []LemmaDecl
	Guarded   map[string]string // "pkg.T.f" or "global:pkg.v" -> mutex field / variable
	Immutable map[string]bool   // same keys
	Opaque    map[string]bool   // short function names (as printed by shortFn) never executed in place
	SpecFiles []*SpecFile
	HookFiles []string // comment-only verif-tagged files found in /repo
	Trusted   []string // scan results: trusted/permissive contracts, axioms, abstract functions
}

func loadProgram(repoDir string, depSpecDir string) (*Program, error) {
	cfg := &packages.Config{
		Mode:       packages.LoadAllSyntax,
		Dir:        repoDir,
		BuildFlags: []string{"-tags=verif"},
		Env:        append(os.Environ(), "GOFLAGS=-mod=mod", "GOPROXY=off", "GOSUMDB=off", "GOTOOLCHAIN=local"),
	}
	pkgs, err := packages.Load(cfg, "./...")
	if err != nil {
		return nil, fmt.Errorf("packages.Load: %v", err)
	}
	var loadErrs []string
	packages.Visit(pkgs, nil, func(p *packages.Package) {
		if strings.HasPrefix(p.PkgPath, "github.com/TheCacophonyProject/thermal-recorder") {
			for _, e := range p.Errors {
				loadErrs = append(loadErrs, e.Error())
			}
		}
	})
	if len(loadErrs) > 0 {
		return nil, fmt.Errorf("load errors in /repo: %s", strings.Join(loadErrs, "; "))
	}
	p := &Program{RepoDir: repoDir, Pkgs: pkgs, AllPkgs: map[string]*packages.Package{}, ByName: map[string][]*packages.Package{},
		Funcs: map[string]*ssa.Function{}, Contracts: map[string]*FuncContract{}, SpecFuncs: map[string]*SpecFunc{},
		Ghosts: map[string]*GhostField{}, Guarded: map[string]string{}, Immutable: map[string]bool{}}
	packages.Visit(pkgs, nil, func(pk *packages.Package) {
		p.AllPkgs[pk.PkgPath] = pk
		p.ByName[pk.Name] = append(p.ByName[pk.Name], pk)
	})
	prog, _ := ssautil.AllPackages(pkgs, ssa.NaiveForm|ssa.GlobalDebug)
	prog.Build()
	p.Prog = prog
	for fn := range ssautil.AllFunctions(prog) {
		p.Funcs[fn.String()] = fn
	}
	// contract files inside /repo: verif-tagged, comment-only
	for _, pk := range pkgs {
		for i, f := range pk.Syntax {
			fname := pk.CompiledGoFiles[i]
			if !isVerifTagged(f) {
				continue
			}
			if len(f.Decls) != 0 {
				return nil, fmt.Errorf("%s: verif-tagged file contains declarations (must be comment-only)", fname)
			}
			p.HookFiles = append(p.HookFiles, fname)
			lines := specLinesFromAST(pk, f)
			sf, err := parseSpecFile(fname, pk.PkgPath, lines)
			if err != nil {
				return nil, err
			}
			p.SpecFiles = append(p.SpecFiles, sf)
		}
	}
	// dependency / shared contracts under /verif/contracts
	if depSpecDir != "" {
		matches, _ := filepath.Glob(filepath.Join(depSpecDir, "*.spec"))
		sort.Strings(matches)
		for _, m := range matches {
			lines, err := specLinesFromFile(m)
			if err != nil {
				return nil, err
			}
			sf, err := parseSpecFile(m, "", lines)
			if err != nil {
				return nil, err
			}
			p.SpecFiles = append(p.SpecFiles, sf)
		}
	}
	if err := p.register(); err != nil {
		return nil, err
	}
	curProgram = p
	return p, nil
}

func isVerifTagged(f *ast.File) bool {
	for _, cg := range f.Comments {
		if cg.Pos() > f.Package {
			break
		}
		for _, c := range cg.List {
			if strings.HasPrefix(c.Text, "//go:build") && strings.Contains(c.Text, "verif") {
				return true
			}
		}
	}
	return false
}

func specLinesFromAST(pk *packages.Package, f *ast.File) []rawLine {
	var out []rawLine
	for _, cg := range f.Comments {
		for _, c := range cg.List {
			if strings.HasPrefix(c.Text, "//@") {
				out = append(out, rawLine{strings.TrimPrefix(c.Text, "//@"), pk.Fset.Position(c.Pos()).Line})
			}
		}
	}
	return out
}

func specLinesFromFile(path string) ([]rawLine, error) {
	fh, err := os.Open(path)
	if err != nil {
		return nil, err
	}
	defer fh.Close()
	var out []rawLine
	sc := bufio.NewScanner(fh)
	sc.Buffer(make([]byte, 1<<20), 1<<20)
	n := 0
	for sc.Scan() {
		n++
		t := sc.Text()
		t = strings.TrimPrefix(strings.TrimSpace(t), "//@")
		out = append(out, rawLine{t, n})
	}
	return out, sc.Err()
}

func (p *Program) register() error {
	// a spec file may switch package with "package" lines; parseSpecFile stamps
	// each entry with the package in force, so just register.
	for _, sf := range p.SpecFiles {
		for _, g := range sf.Ghosts {
			pkgPath := p.resolvePkg(g.Pkg)
			t, err := p.resolveType(g.Type, pkgPath)
			if err != nil {
				return fmt.Errorf("%s: ghost field %s.%s: %v", sf.Path, g.TypeName, g.Field, err)
			}
			owner := pkgPath + "." + g.TypeName
			if pkgPath == "" {
				owner = g.TypeName
			}
			gf := &GhostField{Owner: owner, Name: g.Field, Type: t}
			if ot, err := p.resolveType(g.TypeName, pkgPath); err == nil {
				_, gf.IsIface = ot.Underlying().(*types.Interface)
			}
			p.Ghosts[owner+"."+g.Field] = gf
		}
		for _, f := range sf.Funcs {
			f.Pkg = p.resolvePkg(f.Pkg)
			if _, dup := p.SpecFuncs[f.Key()]; dup {
				return fmt.Errorf("%s:%d: duplicate spec function %s", f.File, f.Line, f.Key())
			}
			p.SpecFuncs[f.Key()] = f
			if f.Abstract {
				p.Trusted = append(p.Trusted, "abstract spec function "+f.Key()+" (uninterpreted)")
			}
		}
		for _, c := range sf.Contrs {
			c.Pkg = p.resolvePkg(c.Pkg)
			if _, dup := p.Contracts[c.Key()]; dup {
				return fmt.Errorf("%s:%d: duplicate contract %s", c.File, c.Line, c.Key())
			}
			p.Contracts[c.Key()] = c
			if c.Mode == "trusted" {
				p.Trusted = append(p.Trusted, "trusted contract (assumed, not verified): "+shortFn(c.Key()))
			}
		}
		for _, o := range sf.Opaque {
			if p.Opaque == nil {
				p.Opaque = map[string]bool{}
			}
			p.Opaque[o] = true
		}
		for _, g := range sf.Guards {
			pk := p.resolvePkg(g.Pkg)
			key := pk + "." + g.Target
			if g.Global {
				key = "global:" + pk + "." + g.Target
			}
			if g.Kind == "guarded" {
				p.Guarded[key] = g.Mutex
			} else {
				p.Immutable[key] = true
			}
		}
		for _, l := range sf.Lemmas {
			l.Pkg = p.resolvePkg(l.Pkg)
			p.Lemmas = append(p.Lemmas, l)
		}
		for _, a := range sf.Axioms {
			a.Pkg = p.resolvePkg(a.Pkg)
			p.Axioms = append(p.Axioms, a)
			p.Trusted = append(p.Trusted, "axiom "+a.Name+": "+a.Text)
		}
	}
	return nil
}

// resolvePkg turns a package name or path into a package path.
func (p *Program) resolvePkg(nameOrPath string) string {
	if nameOrPath == "" {
		return ""
	}
	if _, ok := p.AllPkgs[nameOrPath]; ok {
		return nameOrPath
	}
	if pk, ok := p.ByName[nameOrPath]; ok && len(pk) >= 1 {
		// prefer /repo packages, then a unique one
		for _, q := range pk {
			if strings.HasPrefix(q.PkgPath, "github.com/TheCacophonyProject/thermal-recorder") {
				return q.PkgPath
			}
		}
		return pk[0].PkgPath
	}
	return nameOrPath
}

func (p *Program) typesPkg(path string) *types.Package {
	if pk, ok := p.AllPkgs[path]; ok {
		return pk.Types
	}
	return nil
}

func (p *Program) resolveType(text string, pkgPath string) (types.Type, error) {
	text = strings.TrimSpace(text)
	switch {
	case strings.HasPrefix(text, "*"):
		t, err := p.resolveType(text[1:], pkgPath)
		if err != nil {
			return nil, err
		}
		return types.NewPointer(t), nil
	case strings.HasPrefix(text, "[]"):
		t, err := p.resolveType(text[2:], pkgPath)
		if err != nil {
			return nil, err
		}
		return types.NewSlice(t), nil
	}
	switch text {
	case "int":
		return types.Typ[types.Int], nil
	case "int64":
		return types.Typ[types.Int64], nil
	case "bool":
		return types.Typ[types.Bool], nil
	case "real", "float64":
		return types.Typ[types.Float64], nil
	case "string":
		return types.Typ[types.String], nil
	case "uint16":
		return types.Typ[types.Uint16], nil
	case "uint8", "byte":
		return types.Typ[types.Uint8], nil
	case "uint32":
		return types.Typ[types.Uint32], nil
	case "uint64":
		return types.Typ[types.Uint64], nil
	case "float32":
		return types.Typ[types.Float32], nil
	case "error":
		return types.Universe.Lookup("error").Type(), nil
	case "any":
		return types.NewInterfaceType(nil, nil), nil
	}
	if i := strings.LastIndex(text, "."); i >= 0 {
		pk := p.resolvePkg(text[:i])
		tp := p.typesPkg(pk)
		if tp == nil {
			return nil, fmt.Errorf("unknown package %q in type %q", text[:i], text)
		}
		obj := tp.Scope().Lookup(text[i+1:])
		if obj == nil {
			return nil, fmt.Errorf("unknown type %q", text)
		}
		return obj.Type(), nil
	}
	tp := p.typesPkg(pkgPath)
	if tp == nil {
		return nil, fmt.Errorf("cannot resolve type %q: unknown package %q", text, pkgPath)
	}
	obj := tp.Scope().Lookup(text)
	if obj == nil {
		return nil, fmt.Errorf("unknown type %q in %s", text, pkgPath)
	}
	return obj.Type(), nil
}

// canonFuncName expands a short package name in "pkg.Func" / "(*pkg.T).M".
func (p *Program) canonFuncName(name string) string {
	if _, ok := p.Funcs[name]; ok {
		return name
	}
	for full := range p.Funcs {
		if shortFn(full) == name {
			return full
		}
	}
	return name
}

// ghostField looks up a ghost field on a type key.
func (p *Program) ghostField(owner, name string) *GhostField {
	return p.Ghosts[owner+"."+name]
}

// contractFor returns the contract registered for an SSA function (nil if none).
func (p *Program) contractFor(fn *ssa.Function) *FuncContract {
	return p.Contracts[fn.String()]
}

// checkHookFilesOnly verifies mechanically that the verif tag adds nothing but
// comment-only files: go list file sets with and without the tag.
func (p *Program) hookFileReport() []string {
	var out []string
	for _, f := range p.HookFiles {
		rel, _ := filepath.Rel(p.RepoDir, f)
		out = append(out, rel)
	}
	sort.Strings(out)
	return out
}
