package main

// Per-function verification context: prelude management, loops, obligations.

import (
	"fmt"
	"go/token"
	"go/types"
	"regexp"
	"sort"
	"strings"
	"sync"

	"golang.org/x/tools/go/ssa"
)

type Obligation struct {
	Func   string   `json:"func"`
	Name   string   `json:"name"`
	Kind   string   `json:"kind"` // ensures requires invariant frame safety cover
	Tags   []string `json:"tags"`
	Path   string   `json:"path"`
	Text   string   `json:"text"`
	Pos    string   `json:"pos"`
	Query  string   `json:"-"`
	Cover  bool     `json:"cover"` // expect sat (vacuity guard)
	Result SolverResult
	Watch  []string `json:"-"`
}

type Loop struct {
	Head    *ssa.BasicBlock
	Body    map[*ssa.BasicBlock]bool
	Ordinal int
}

type FnExec struct {
	inlineOK     map[*ssa.Function]bool
	P            *Program
	Fn           *ssa.Function
	C            *FuncContract
	Mode         string
	prelude      []string
	preludeSet   map[string]bool
	counter      int
	initHeap     map[string]Term
	entry        *State
	entryNow     Term
	params       map[string]Binding
	resNames     []string
	modset       []modEntry
	loops        []*Loop
	loopOf       map[*ssa.BasicBlock]*Loop
	emit         func(*Obligation)
	paths        int
	maxPaths     int
	errs         []string
	qn           int
	strLits      map[string]Term
	typeCodes    map[string]int
	retPaths     int
	watch        []string
	safetyOrd    map[ssa.Instruction]int
	callOrd      map[ssa.Instruction]int
	funcTags     []string
	nObl         int
	abstracted   []string
	name         string
	usedGhosts   map[int]bool
	axioms       []lazyAxiom
	implGhost    map[string]Binding
	guardOrd     map[ssa.Instruction]int
	asyncCall    bool            // applying a contract at a go statement
	noAssume     bool            // postconditions at a return are checked independently of each other
	asyncCallees map[string]bool // goroutines started under contract (assumption: they keep to their frame)
}

type modEntry struct {
	kind string // "loc" (key, ref) | "pix" (owner ref)
	key  string
	ref  Term
	text string
	sort *Sort
}

func (fe *FnExec) freshName(prefix string) string {
	fe.counter++
	prefix = strings.Map(func(r rune) rune {
		if r == '|' || r == '\\' || r == ' ' {
			return '_'
		}
		return r
	}, prefix)
	return fmt.Sprintf("|%s!%d|", prefix, fe.counter)
}

func (fe *FnExec) addPrelude(key, cmd string) {
	if fe.preludeSet[key] {
		return
	}
	fe.preludeSet[key] = true
	fe.prelude = append(fe.prelude, cmd)
}

func (fe *FnExec) initHeapArr(key string, s *Sort) Term {
	if t, ok := fe.initHeap[key]; ok {
		return t
	}
	name := "|H0." + shortFn(key) + "|"
	fe.addPrelude("heap:"+key, "(declare-const "+name+" "+s.String()+")")
	t := Term{name, s}
	fe.initHeap[key] = t
	return t
}

func (fe *FnExec) embFunc(owner, field string) string {
	name := "|emb." + shortFn(owner) + "." + field + "|"
	key := "emb:" + owner + "." + field
	if !fe.preludeSet[key] {
		code := fe.typeCode("emb:" + owner + "." + field)
		inv := "|embinv." + shortFn(owner) + "." + field + "|"
		fe.addPrelude(key, "(declare-fun "+name+" (Int) Int)\n(declare-fun "+inv+" (Int) Int)\n"+
			"(assert (forall ((x Int)) (! (and (= ("+inv+" ("+name+" x)) x) (= (tagof ("+name+" x)) "+fmt.Sprint(code)+") (= (birth ("+name+" x)) (birth x)) (not (= ("+name+" x) 0))) :pattern (("+name+" x)))))")
	}
	return name
}

func (fe *FnExec) typeCode(key string) int {
	if c, ok := fe.typeCodes[key]; ok {
		return c
	}
	c := len(fe.typeCodes) + 1
	fe.typeCodes[key] = c
	return c
}

// dynamic type codes are global and stable within a run: hash by sorted registry
var globalTypeCodes = map[string]int{}

func (fe *FnExec) typeCodeOf(t types.Type) Term {
	return fe.typeCodeByName(t.String())
}

var globalTypeCodesMu sync.Mutex

func (fe *FnExec) typeCodeByName(name string) Term {
	name = fe.P.canonTypeName(name)
	globalTypeCodesMu.Lock()
	defer globalTypeCodesMu.Unlock()
	c, ok := globalTypeCodes[name]
	if !ok {
		c = len(globalTypeCodes) + 1
		globalTypeCodes[name] = c
	}
	return IntLit(int64(c))
}

// canonTypeName expands short package names in "*pkg.T" to full paths.
func (p *Program) canonTypeName(name string) string {
	star := ""
	n := name
	for strings.HasPrefix(n, "*") {
		star += "*"
		n = n[1:]
	}
	if i := strings.LastIndex(n, "."); i >= 0 {
		pk := n[:i]
		if _, ok := p.AllPkgs[pk]; !ok {
			pk = p.resolvePkg(pk)
		}
		return star + pk + "." + n[i+1:]
	}
	return name
}

func (fe *FnExec) strLit(s string) Term {
	if s == "" {
		return Term{"strempty", SStr}
	}
	if t, ok := fe.strLits[s]; ok {
		return t
	}
	name := fmt.Sprintf("|str.lit%d|", len(fe.strLits)+1)
	t := Term{name, SStr}
	// distinct from all earlier literals and from the empty string
	var b strings.Builder
	b.WriteString("(declare-const " + name + " Str) ; " + fmt.Sprintf("%q", s) + "\n")
	b.WriteString(fmt.Sprintf("(assert (= (strlen %s) %d))\n", name, len(s)))
	b.WriteString("(assert (not (= " + name + " strempty)))")
	if len(s) <= 32 {
		for i := 0; i < len(s); i++ {
			b.WriteString(fmt.Sprintf("\n(assert (= (strbyte %s %d) %d))", name, i, s[i]))
		}
	}
	for _, k := range sortedKeys(fe.strLits) {
		b.WriteString("\n(assert (not (= " + name + " " + fe.strLits[k].S + ")))")
	}
	fe.strLits[s] = t
	fe.addPrelude("str:"+s, b.String())
	return t
}

func (fe *FnExec) uninterp(name string, args []Term, ret *Sort) string {
	q := "|" + name + "|"
	var as []string
	for _, a := range args {
		as = append(as, a.Sort.String())
	}
	if len(args) == 0 {
		fe.addPrelude("uf:"+name, "(declare-const "+q+" "+ret.String()+")")
	} else {
		fe.addPrelude("uf:"+name, "(declare-fun "+q+" ("+strings.Join(as, " ")+") "+ret.String()+")")
	}
	return q
}

// boxFuncs declares the injective boxing of non-integer scalars into interface payloads.
func (fe *FnExec) boxFuncs(s *Sort) (box, unbox string) {
	box, unbox = "|box."+s.Name+"|", "|unbox."+s.Name+"|"
	fe.addPrelude("box:"+s.Name, "(declare-fun "+box+" ("+s.String()+") Int)\n(declare-fun "+unbox+" (Int) "+s.String()+")\n"+
		"(assert (forall ((x "+s.String()+")) (! (= ("+unbox+" ("+box+" x)) x) :pattern (("+box+" x)))))")
	return
}

const basePrelude = `(set-option :produce-models true)
(set-logic ALL)
(declare-sort Str 0)
(declare-sort F32 0)
(declare-const strempty Str)
(declare-fun strlen (Str) Int)
(declare-fun strbyte (Str Int) Int)
(declare-fun strcat (Str Str) Str)
(assert (= (strlen strempty) 0))
(assert (forall ((s Str)) (! (>= (strlen s) 0) :pattern ((strlen s)))))
(declare-const f32.zero F32)
(declare-fun birth (Int) Int)
(declare-fun tagof (Int) Int)
(declare-fun owner (Int) Int)
(declare-fun rowof (Int) Int)
`

// buildQuery renders a standalone SMT-LIB2 script for one obligation.
type lazyAxiom struct {
	name string
	term Term
	syms []string
}

var specSymRe = regexp.MustCompile(`\|sf\.[^|]*\||\|f32\.[a-z_]+\|`)

// specSymbols: the spec-function / float symbols an axiom speaks about.
func specSymbols(s string) []string {
	seen := map[string]bool{}
	var out []string
	for _, m := range specSymRe.FindAllString(s, -1) {
		if !seen[m] {
			seen[m] = true
			out = append(out, m)
		}
	}
	return out
}

func (fe *FnExec) buildQuery(st *State, goal Term, cover bool, header string) string {
	var b strings.Builder
	b.WriteString("; " + strings.ReplaceAll(header, "\n", "\n; ") + "\n")
	b.WriteString(basePrelude)
	for _, l := range fe.prelude {
		b.WriteString(l)
		b.WriteByte('\n')
	}
	var body strings.Builder
	for _, n := range st.ctx.lines() {
		if n.decl != "" {
			body.WriteString(n.decl)
			body.WriteByte('\n')
		} else {
			if n.note != "" {
				body.WriteString("; " + n.note + "\n")
			}
			body.WriteString("(assert " + n.assume.S + ")\n")
		}
	}
	if !cover {
		body.WriteString("; goal (negated)\n(assert (not " + goal.S + "))\n")
	}
	// axioms about symbols this query mentions (closed under the symbols the
	// selected axioms themselves bring in)
	text := body.String()
	used := map[int]bool{}
	for changed := true; changed; {
		changed = false
		for i, ax := range fe.axioms {
			if used[i] {
				continue
			}
			for _, sym := range ax.syms {
				if strings.Contains(text, sym) {
					used[i] = true
					changed = true
					text += ax.term.S
					break
				}
			}
		}
	}
	for i, ax := range fe.axioms {
		if used[i] {
			b.WriteString("; axiom " + ax.name + "\n(assert " + ax.term.S + ")\n")
		}
	}
	b.WriteString(body.String())
	b.WriteString("(check-sat)\n")
	if !cover && len(fe.watch) > 0 {
		b.WriteString("(get-value (" + strings.Join(fe.watch, " ") + "))\n")
	}
	return b.String()
}

// ---------------------------------------------------------------------------
// loops

func (fe *FnExec) findLoops() {
	fn := fe.Fn
	fe.loopOf = map[*ssa.BasicBlock]*Loop{}
	// back edges n -> h with h dominating n
	for _, b := range fn.Blocks {
		for _, s := range b.Succs {
			if s.Dominates(b) {
				l := fe.loopOf[s]
				if l == nil {
					l = &Loop{Head: s, Body: map[*ssa.BasicBlock]bool{s: true}}
					fe.loopOf[s] = l
				}
				// natural loop body: nodes that reach b without passing h
				stack := []*ssa.BasicBlock{b}
				for len(stack) > 0 {
					n := stack[len(stack)-1]
					stack = stack[:len(stack)-1]
					if l.Body[n] {
						continue
					}
					l.Body[n] = true
					stack = append(stack, n.Preds...)
				}
			}
		}
	}
	for _, l := range fe.loopOf {
		fe.loops = append(fe.loops, l)
	}
	sort.Slice(fe.loops, func(i, j int) bool { return fe.loops[i].Head.Index < fe.loops[j].Head.Index })
	for i, l := range fe.loops {
		l.Ordinal = i + 1
	}
}

func (fe *FnExec) pos(p token.Pos) string {
	if !p.IsValid() {
		return ""
	}
	ps := fe.P.Prog.Fset.Position(p)
	return fmt.Sprintf("%s:%d", shortPath(ps.Filename), ps.Line)
}

func shortPath(f string) string {
	f = strings.TrimPrefix(f, "/repo/")
	if i := strings.Index(f, "/pkg/mod/"); i >= 0 {
		f = f[i+9:]
	}
	return f
}

func (fe *FnExec) errorf(format string, a ...interface{}) {
	msg := fmt.Sprintf(format, a...)
	for _, e := range fe.errs {
		if e == msg {
			return
		}
	}
	fe.errs = append(fe.errs, msg)
}
