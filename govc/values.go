package main

// Symbolic values and the shape of Go types in the heap encoding.

import (
	"fmt"
	"go/types"
	"strings"

	"golang.org/x/tools/go/ssa"
)

type SVal interface{}

type Scalar struct{ T Term }

type SliceV struct{ Arr, Off, Len, Cap Term }

type IfaceV struct{ Typ, Ref Term }

type StructV struct {
	T types.Type // named or struct type
	F []SVal
}

type TupleV struct{ E []SVal }

// LocV is a struct value located in the heap (an embedded struct field or the
// pointee of a struct pointer used as a value in a contract expression).
type LocV struct {
	Ref Term
	T   types.Type
	st  *State
}

func (l LocV) load() SVal {
	v, err := l.st.loadStruct(l.Ref, l.T)
	if err != nil {
		panic(execError{"loading located struct: " + err.Error()})
	}
	return v
}

// AddrV is the address of a non-struct cell.
type AddrV struct {
	Kind  string     // "local" | "field" | "elem" | "global"
	Local *ssa.Alloc // local
	Ref   Term       // field: owning object
	Owner string     // field: owner type key
	Field *types.Var // field
	Arr   Term       // elem: backing array
	Idx   Term       // elem: absolute index
	ElemT types.Type // elem / field / global type
	Glob  *ssa.Global
}

type comp struct {
	suffix string
	sort   *Sort
}

func isStructByValue(t types.Type) bool {
	_, ok := t.Underlying().(*types.Struct)
	return ok
}

func typeKey(t types.Type) string {
	switch tt := t.(type) {
	case *types.Named:
		obj := tt.Obj()
		if obj.Pkg() == nil {
			return obj.Name()
		}
		return obj.Pkg().Path() + "." + obj.Name()
	case *types.Alias:
		return typeKey(types.Unalias(tt))
	case *types.Basic:
		// byte and uint8 (rune and int32) are the same type
		if int(tt.Kind()) < len(types.Typ) && types.Typ[tt.Kind()] != nil {
			return types.Typ[tt.Kind()].Name()
		}
	case *types.Slice:
		return "[]" + typeKey(tt.Elem())
	case *types.Pointer:
		return "*" + typeKey(tt.Elem())
	}
	return t.String()
}

func sortOfBasic(b *types.Basic) *Sort {
	info := b.Info()
	switch {
	case info&types.IsBoolean != 0:
		return SBool
	case info&types.IsInteger != 0:
		return SInt
	case info&types.IsFloat != 0:
		if b.Kind() == types.Float32 {
			return SF32
		}
		return SReal
	case info&types.IsString != 0:
		return SStr
	}
	if b.Kind() == types.UnsafePointer {
		return SInt
	}
	if b.Kind() == types.UntypedNil {
		return SInt
	}
	return nil
}

// compsOf returns the scalar components a (non-struct) value of type t occupies.
func compsOf(t types.Type) ([]comp, error) {
	switch u := t.Underlying().(type) {
	case *types.Basic:
		s := sortOfBasic(u)
		if s == nil {
			return nil, fmt.Errorf("unsupported basic type %s", t)
		}
		return []comp{{"", s}}, nil
	case *types.Pointer, *types.Map, *types.Chan, *types.Signature:
		return []comp{{"", SInt}}, nil
	case *types.Slice:
		return []comp{{".arr", SInt}, {".off", SInt}, {".len", SInt}, {".cap", SInt}}, nil
	case *types.Interface:
		return []comp{{".typ", SInt}, {".ref", SInt}}, nil
	case *types.Struct:
		return nil, fmt.Errorf("struct type %s has no flat components", t)
	case *types.Array:
		// array values are opaque (one abstract component); element access is unsupported
		return []comp{{"", SInt}}, nil
	case *types.Tuple:
		return nil, fmt.Errorf("tuple type unsupported here")
	}
	return nil, fmt.Errorf("unsupported type %s", t)
}

func mkVal(t types.Type, c []Term) SVal {
	switch t.Underlying().(type) {
	case *types.Slice:
		return SliceV{c[0], c[1], c[2], c[3]}
	case *types.Interface:
		return IfaceV{c[0], c[1]}
	}
	return Scalar{c[0]}
}

func flatten(v SVal) []Term {
	switch x := v.(type) {
	case Scalar:
		return []Term{x.T}
	case SliceV:
		return []Term{x.Arr, x.Off, x.Len, x.Cap}
	case IfaceV:
		return []Term{x.Typ, x.Ref}
	case StructV:
		var out []Term
		for _, f := range x.F {
			out = append(out, flatten(f)...)
		}
		return out
	case TupleV:
		var out []Term
		for _, f := range x.E {
			out = append(out, flatten(f)...)
		}
		return out
	case LocV:
		return flatten(x.load())
	}
	panic(fmt.Sprintf("flatten: unsupported value %T", v))
}

func zeroTerm(s *Sort) Term {
	switch s {
	case SInt:
		return IntLit(0)
	case SBool:
		return TFalse
	case SReal:
		return Term{"0.0", SReal}
	case SStr:
		return Term{"strempty", SStr}
	case SF32:
		return Term{"f32.zero", SF32}
	}
	panic("zeroTerm: " + s.String())
}

// curProgram gives value-level helpers access to the ghost-field registry: a
// struct value carries its ghost fields after its real fields (sorted by key).
var curProgram *Program

func zeroVal(t types.Type) (SVal, error) {
	if st, ok := t.Underlying().(*types.Struct); ok {
		sv := StructV{T: t}
		for i := 0; i < st.NumFields(); i++ {
			z, err := zeroVal(st.Field(i).Type())
			if err != nil {
				return nil, err
			}
			sv.F = append(sv.F, z)
		}
		if curProgram != nil {
			for _, k := range curProgram.ghostKeysOf(typeKey(t)) {
				z, err := zeroVal(curProgram.Ghosts[k].Type)
				if err != nil {
					return nil, err
				}
				sv.F = append(sv.F, z)
			}
		}
		return sv, nil
	}
	cs, err := compsOf(t)
	if err != nil {
		return nil, err
	}
	ts := make([]Term, len(cs))
	for i, c := range cs {
		ts[i] = zeroTerm(c.sort)
	}
	return mkVal(t, ts), nil
}

// intRange returns the [lo,hi] bounds of sized integer types (ok=false for int/int64/uint64-as-math).
func intBits(t types.Type) (bits int, signed bool, ok bool) {
	b, isB := t.Underlying().(*types.Basic)
	if !isB || b.Info()&types.IsInteger == 0 {
		return 0, false, false
	}
	switch b.Kind() {
	case types.Int8:
		return 8, true, true
	case types.Int16:
		return 16, true, true
	case types.Int32:
		return 32, true, true
	case types.Uint8:
		return 8, false, true
	case types.Uint16:
		return 16, false, true
	case types.Uint32:
		return 32, false, true
	case types.Uint64, types.Uint, types.Uintptr:
		return 64, false, true
	}
	return 0, true, false // int, int64: mathematical (A1)
}

func pow2(bits int) Term {
	switch bits {
	case 8:
		return IntLit(256)
	case 16:
		return IntLit(65536)
	case 32:
		return IntLit(4294967296)
	case 63:
		return IntLit(9223372036854775807/2 + 1) // unused
	case 64:
		return Term{"18446744073709551616", SInt}
	}
	panic("pow2")
}

func pow2half(bits int) Term {
	switch bits {
	case 8:
		return IntLit(128)
	case 16:
		return IntLit(32768)
	case 32:
		return IntLit(2147483648)
	}
	panic("pow2half")
}

// wrapInt normalises a mathematical result into the range of sized integer type t.
func wrapInt(v Term, t types.Type) Term {
	bits, signed, ok := intBits(t)
	if !ok {
		return v
	}
	if lv, isLit := intLitVal(v); isLit && bits < 64 {
		m := int64(1) << uint(bits)
		if !signed {
			r := ((lv % m) + m) % m
			return IntLit(r)
		}
		h := m / 2
		r := (((lv+h)%m)+m)%m - h
		return IntLit(r)
	}
	if !signed {
		return App(SInt, "mod", v, pow2(bits))
	}
	return Sub(App(SInt, "mod", Add(v, pow2half(bits)), pow2(bits)), pow2half(bits))
}

func rangeFact(v Term, t types.Type) Term {
	bits, signed, ok := intBits(t)
	if !ok {
		return TTrue
	}
	if !signed {
		return And(Ge(v, IntLit(0)), Lt(v, pow2(bits)))
	}
	return And(Ge(v, Neg(pow2half(bits))), Lt(v, pow2half(bits)))
}

func shortFn(name string) string {
	// strip the module prefix for readability of obligation names
	name = strings.ReplaceAll(name, "github.com/TheCacophonyProject/thermal-recorder/", "")
	name = strings.ReplaceAll(name, "github.com/TheCacophonyProject/", "")
	name = strings.ReplaceAll(name, "github.com/", "")
	return name
}
