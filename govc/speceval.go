package main

// Evaluation of contract expressions into SMT terms over a symbolic state.

import (
	"fmt"
	"go/constant"
	"go/types"
	"strings"
)

type Env struct {
	fe       *FnExec
	st       *State // state for heap reads
	live     *State // state receiving declarations (nil = st)
	old      *State // state for old(); nil = st
	vars     map[string]Binding
	pkg      string // package path for resolving identifiers
	depth    int
	qn       *int
	recStack map[string]string // recursive spec functions being defined: key -> SMT symbol
	// quantifier bookkeeping (see EQuant)
	idxUses    map[string][]Term
	boundNames map[string]string
}

func (e *Env) with(vars map[string]Binding) *Env {
	n := *e
	n.vars = vars
	return &n
}

func (e *Env) child() *Env {
	n := *e
	n.vars = make(map[string]Binding, len(e.vars)+2)
	for k, v := range e.vars {
		n.vars[k] = v
	}
	return &n
}

var (
	tInt    = types.Typ[types.Int]
	tBool   = types.Typ[types.Bool]
	tReal   = types.Typ[types.Float64]
	tString = types.Typ[types.String]
)

func scalarOf(v SVal) (Term, bool) {
	s, ok := v.(Scalar)
	return s.T, ok
}

func (e *Env) evalBool(x Expr) (Term, error) {
	v, _, err := e.eval(x)
	if err != nil {
		return Term{}, err
	}
	t, ok := scalarOf(v)
	if !ok || t.Sort != SBool {
		return Term{}, fmt.Errorf("expected a boolean expression, got %T %v", v, v)
	}
	return t, nil
}

func (e *Env) evalTerm(x Expr) (Term, types.Type, error) {
	v, t, err := e.eval(x)
	if err != nil {
		return Term{}, nil, err
	}
	tm, ok := scalarOf(v)
	if !ok {
		return Term{}, nil, fmt.Errorf("expected a scalar expression, got %T", v)
	}
	return tm, t, nil
}

func typeOfSort(s *Sort) types.Type {
	switch s {
	case SBool:
		return tBool
	case SReal:
		return tReal
	case SStr:
		return tString
	}
	return tInt
}

func (e *Env) eval(x Expr) (SVal, types.Type, error) {
	switch n := x.(type) {
	case *EInt:
		return Scalar{IntLitStr(n.V)}, tInt, nil
	case *EReal:
		return Scalar{RealLitStr(n.V)}, tReal, nil
	case *EBool:
		return Scalar{BoolLit(n.V)}, tBool, nil
	case *EStr:
		return Scalar{e.fe.strLit(n.V)}, tString, nil
	case *ENil:
		return Scalar{IntLit(0)}, types.Typ[types.UntypedNil], nil
	case *EIdent:
		return e.evalIdent(n.Name)
	case *EOld:
		o := e.old
		if o == nil {
			o = e.st
		}
		ne := *e
		if ne.live == nil {
			ne.live = e.st
		}
		ne.st = o
		return ne.eval(n.X)
	case *EUnary:
		v, t, err := e.evalTerm(n.X)
		if err != nil {
			return nil, nil, err
		}
		switch n.Op {
		case "!":
			if v.Sort != SBool {
				return nil, nil, fmt.Errorf("! on non-bool")
			}
			return Scalar{Not(v)}, tBool, nil
		case "-":
			return Scalar{Neg(v)}, t, nil
		}
	case *ECond:
		c, err := e.evalBool(n.C)
		if err != nil {
			return nil, nil, err
		}
		// a decided condition selects its branch without evaluating the other one
		if c.S == "true" {
			return e.eval(n.A)
		}
		if c.S == "false" {
			return e.eval(n.B)
		}
		a, ta, err := e.eval(n.A)
		if err != nil {
			return nil, nil, err
		}
		b, _, err := e.eval(n.B)
		if err != nil {
			return nil, nil, err
		}
		fa, fb := flatten(a), flatten(b)
		if len(fa) != len(fb) {
			return nil, nil, fmt.Errorf("?: branches have different shapes")
		}
		out := make([]Term, len(fa))
		for i := range fa {
			out[i] = Ite(c, fa[i], fb[i])
		}
		if len(out) == 1 {
			return Scalar{out[0]}, ta, nil
		}
		return mkVal(ta, out), ta, nil
	case *EBinary:
		return e.evalBinary(n)
	case *ESel:
		return e.evalSel(n)
	case *EIndex:
		// elements of a recorded call argument are read in the state just before that call
		if c, ok := n.X.(*ECall); ok {
			if id, ok := c.Fun.(*EIdent); ok && id.Name == "callarg" && len(c.Args) >= 2 {
				if s, ok := c.Args[0].(*EStr); ok {
					if k, ok := c.Args[1].(*EInt); ok {
						var kk int
						fmt.Sscanf(k.V, "%d", &kk)
						if rec, have := e.st.callLog[fmt.Sprintf("%s#%d", s.V, kk)]; have && rec.pre != nil {
							ne := *e
							if ne.live == nil {
								ne.live = e.st
							}
							ne.st = rec.pre
							ne.st.callLog = e.st.callLog
							inner := *n
							sv, stt, err := ne.eval(inner.X)
							if err != nil {
								return nil, nil, err
							}
							i, _, err := e.evalTerm(n.I)
							if err != nil {
								return nil, nil, err
							}
							sl, ok := sv.(SliceV)
							if !ok {
								return nil, nil, fmt.Errorf("index on non-slice call argument")
							}
							et := stt.Underlying().(*types.Slice).Elem()
							v, err := rec.pre.loadElem(sl.Arr, Add(sl.Off, i), et)
							return v, et, err
						}
					}
				}
			}
		}
		s, st, err := e.eval(n.X)
		if err != nil {
			return nil, nil, err
		}
		i, _, err := e.evalTerm(n.I)
		if err != nil {
			return nil, nil, err
		}
		sl, ok := s.(SliceV)
		if !ok {
			return nil, nil, fmt.Errorf("index on non-slice %T", s)
		}
		et := st.Underlying().(*types.Slice).Elem()
		if id, ok := n.I.(*EIdent); ok && e.idxUses != nil {
			if bn, isBound := e.boundNames[id.Name]; isBound && i.S == bn {
				e.idxUses[id.Name] = append(e.idxUses[id.Name], sl.Off)
			}
		}
		v, err := e.st.loadElem(sl.Arr, Add(sl.Off, i), et)
		return v, et, err
	case *ESlice:
		s, st, err := e.eval(n.X)
		if err != nil {
			return nil, nil, err
		}
		sl, ok := s.(SliceV)
		if !ok {
			return nil, nil, fmt.Errorf("slice of non-slice")
		}
		lo, hi := IntLit(0), sl.Len
		if n.Lo != nil {
			if lo, _, err = e.evalTerm(n.Lo); err != nil {
				return nil, nil, err
			}
		}
		if n.Hi != nil {
			if hi, _, err = e.evalTerm(n.Hi); err != nil {
				return nil, nil, err
			}
		}
		return SliceV{sl.Arr, Add(sl.Off, lo), Sub(hi, lo), Sub(sl.Cap, lo)}, st, nil
	case *ECall:
		return e.evalCall(n)
	case *EQuant:
		// Iterated evaluation. The body is evaluated with plain bound variables
		// while recording, for every s[k] whose index is exactly a bound variable,
		// the slice offset. One such variable per round is then re-bound to
		// (j - off) for a bound variable j ranging over absolute positions, so that
		// element reads appear as select(select(H, arr), j): a trigger without
		// arithmetic. Offsets may mention other bound variables (outer ones, or
		// siblings), never the variable itself. Bound names are fixed per
		// quantifier so that recorded offsets stay meaningful across rounds.
		shift := map[string]Term{}
		base := *e.qn
		*e.qn += len(n.Vars)
		for round := 0; round <= len(n.Vars)+1; round++ {
			ne := e.child()
			var bvs []BoundVar
			rec := map[string][]Term{}
			ne.idxUses = rec
			ne.boundNames = map[string]string{}
			for k, v := range e.boundNames {
				ne.boundNames[k] = v
			}
			own := map[string]string{}
			for idx, v := range n.Vars {
				t, err := e.fe.P.resolveType(v.Type, e.pkg)
				if err != nil {
					return nil, nil, err
				}
				cs, err := compsOf(t)
				if err != nil || len(cs) != 1 {
					return nil, nil, fmt.Errorf("bound variable %s: unsupported type %s", v.Name, v.Type)
				}
				name := fmt.Sprintf("%s!q%d", v.Name, base+idx+1)
				own[v.Name] = name
				bvs = append(bvs, BoundVar{name, cs[0].sort})
				bt := Term{name, cs[0].sort}
				if off, ok := shift[v.Name]; ok {
					ne.vars[v.Name] = Binding{Scalar{Sub(bt, off)}, t}
					delete(ne.boundNames, v.Name)
				} else {
					ne.vars[v.Name] = Binding{Scalar{bt}, t}
					ne.boundNames[v.Name] = name
				}
			}
			body, err := ne.evalBool(n.Body)
			if err != nil {
				return nil, nil, err
			}
			added := false
			for _, v := range n.Vars {
				if _, done := shift[v.Name]; done {
					continue
				}
				offs := rec[v.Name]
				if len(offs) == 0 {
					continue
				}
				off := offs[0]
				if off.S == "0" || strings.Contains(off.S, own[v.Name]) {
					continue
				}
				shift[v.Name] = off
				added = true
				break
			}
			if added {
				continue
			}
			if n.Forall {
				return Scalar{Forall(bvs, body)}, tBool, nil
			}
			return Scalar{Exists(bvs, body)}, tBool, nil
		}
		return nil, nil, fmt.Errorf("quantifier shifting did not converge")
	case *ELet:
		v, t, err := e.eval(n.Val)
		if err != nil {
			return nil, nil, err
		}
		ne := e.child()
		ne.vars[n.Name] = Binding{v, t}
		return ne.eval(n.Body)
	}
	return nil, nil, fmt.Errorf("unsupported expression %T", x)
}

func (e *Env) evalIdent(name string) (SVal, types.Type, error) {
	if b, ok := e.vars[name]; ok {
		return b.V, b.T, nil
	}
	if e.st != nil {
		if b, ok := e.st.binds[name]; ok {
			return b.V, b.T, nil
		}
	}
	// package-level constant / variable
	if tp := e.fe.P.typesPkg(e.pkg); tp != nil {
		if obj := tp.Scope().Lookup(name); obj != nil {
			switch o := obj.(type) {
			case *types.Const:
				return constVal(e.fe, o.Val(), o.Type())
			case *types.Var:
				v, err := e.st.loadGlobal(typeKey2(o), o.Type())
				return v, o.Type(), err
			}
		}
	}
	return nil, nil, fmt.Errorf("unknown identifier %q", name)
}

func typeKey2(o *types.Var) string {
	if o.Pkg() != nil {
		return o.Pkg().Path() + "." + o.Name()
	}
	return o.Name()
}

func constVal(fe *FnExec, v constant.Value, t types.Type) (SVal, types.Type, error) {
	switch v.Kind() {
	case constant.Int:
		return Scalar{IntLitStr(v.ExactString())}, t, nil
	case constant.Bool:
		return Scalar{BoolLit(constant.BoolVal(v))}, t, nil
	case constant.String:
		return Scalar{fe.strLit(constant.StringVal(v))}, t, nil
	case constant.Float:
		if b, ok := t.Underlying().(*types.Basic); ok && b.Info()&types.IsInteger != 0 {
			return Scalar{IntLitStr(v.ExactString())}, t, nil
		}
		return Scalar{RealLitStr(v.ExactString())}, t, nil
	}
	return nil, nil, fmt.Errorf("unsupported constant %v", v)
}

func (e *Env) evalBinary(n *EBinary) (SVal, types.Type, error) {
	switch n.Op {
	case "&&", "||", "==>":
		a, err := e.evalBool(n.X)
		if err != nil {
			return nil, nil, err
		}
		if (a.S == "false" && (n.Op == "&&" || n.Op == "==>")) || (a.S == "true" && n.Op == "||") {
			return Scalar{BoolLit(n.Op != "&&")}, tBool, nil
		}
		b, err := e.evalBool(n.Y)
		if err != nil {
			return nil, nil, err
		}
		switch n.Op {
		case "&&":
			return Scalar{And(a, b)}, tBool, nil
		case "||":
			return Scalar{Or(a, b)}, tBool, nil
		}
		return Scalar{Implies(a, b)}, tBool, nil
	case "==", "!=":
		a, _, err := e.eval(n.X)
		if err != nil {
			return nil, nil, err
		}
		b, _, err := e.eval(n.Y)
		if err != nil {
			return nil, nil, err
		}
		eq, err := valEq(a, b)
		if err != nil {
			return nil, nil, err
		}
		if n.Op == "!=" {
			eq = Not(eq)
		}
		return Scalar{eq}, tBool, nil
	}
	a, ta, err := e.evalTerm(n.X)
	if err != nil {
		return nil, nil, err
	}
	b, _, err := e.evalTerm(n.Y)
	if err != nil {
		return nil, nil, err
	}
	rt := ta
	if a.Sort == SReal || b.Sort == SReal {
		rt = tReal
	} else if a.Sort == SInt {
		rt = tInt
	}
	switch n.Op {
	case "+":
		if a.Sort == SStr {
			return Scalar{App(SStr, "strcat", a, b)}, tString, nil
		}
		return Scalar{Add(a, b)}, rt, nil
	case "-":
		return Scalar{Sub(a, b)}, rt, nil
	case "*":
		return Scalar{Mul(a, b)}, rt, nil
	case "/":
		return Scalar{GoDiv(a, b)}, rt, nil
	case "%":
		return Scalar{GoRem(a, b)}, rt, nil
	case "<":
		return Scalar{Lt(a, b)}, tBool, nil
	case "<=":
		return Scalar{Le(a, b)}, tBool, nil
	case ">":
		return Scalar{Gt(a, b)}, tBool, nil
	case ">=":
		return Scalar{Ge(a, b)}, tBool, nil
	}
	return nil, nil, fmt.Errorf("unsupported operator %s", n.Op)
}

// valEq compares two symbolic values structurally; nil compares with pointers,
// slices (arr == 0) and interfaces (typ == 0).
func valEq(a, b SVal) (Term, error) {
	if l, ok := a.(LocV); ok {
		a = l.load()
	}
	if l, ok := b.(LocV); ok {
		b = l.load()
	}
	isNil := func(v SVal) bool {
		s, ok := v.(Scalar)
		return ok && s.T.S == "0" && s.T.Sort == SInt
	}
	switch x := a.(type) {
	case SliceV:
		if isNil(b) {
			return Eq(x.Arr, IntLit(0)), nil
		}
		if y, ok := b.(SliceV); ok {
			return And(Eq(x.Arr, y.Arr), Eq(x.Off, y.Off), Eq(x.Len, y.Len), Eq(x.Cap, y.Cap)), nil
		}
	case IfaceV:
		if isNil(b) {
			return Eq(x.Typ, IntLit(0)), nil
		}
		if y, ok := b.(IfaceV); ok {
			return And(Eq(x.Typ, y.Typ), Eq(x.Ref, y.Ref)), nil
		}
	case Scalar:
		switch y := b.(type) {
		case Scalar:
			return Eq(x.T, y.T), nil
		case SliceV, IfaceV:
			return valEq(b, a)
		}
	case StructV:
		if y, ok := b.(StructV); ok {
			fa, fb := flatten(x), flatten(y)
			if len(fa) == len(fb) {
				var cs []Term
				for i := range fa {
					cs = append(cs, Eq(fa[i], fb[i]))
				}
				return And(cs...), nil
			}
		}
	}
	return Term{}, fmt.Errorf("cannot compare %T with %T", a, b)
}

// structInfo returns the struct type behind a pointer-to-struct or struct type.
func structInfo(t types.Type) (owner string, s *types.Struct, named types.Type, ok bool) {
	if p, isP := t.Underlying().(*types.Pointer); isP {
		t = p.Elem()
	}
	if st, isS := t.Underlying().(*types.Struct); isS {
		return typeKey(t), st, t, true
	}
	return "", nil, nil, false
}

func (e *Env) evalSel(n *ESel) (SVal, types.Type, error) {
	// package-qualified identifier?
	if id, ok := n.X.(*EIdent); ok {
		if _, bound := e.vars[id.Name]; !bound {
			if _, isBind := e.st.binds[id.Name]; !isBind {
				if pk, ok := e.fe.P.ByName[id.Name]; ok && len(pk) > 0 {
					pp := e.fe.P.resolvePkg(id.Name)
					ne := *e
					ne.pkg = pp
					return ne.evalIdent(n.Name)
				}
			}
		}
	}
	x, xt, err := e.eval(n.X)
	if err != nil {
		return nil, nil, err
	}
	switch v := x.(type) {
	case TupleV:
		var i int
		if _, err := fmt.Sscanf(n.Name, "%d", &i); err == nil && i < len(v.E) {
			tt := xt.(*types.Tuple)
			return v.E[i], tt.At(i).Type(), nil
		}
		return nil, nil, fmt.Errorf("bad tuple selector .%s", n.Name)
	case StructV:
		s := v.T.Underlying().(*types.Struct)
		for i := 0; i < s.NumFields(); i++ {
			if s.Field(i).Name() == n.Name {
				return v.F[i], s.Field(i).Type(), nil
			}
		}
		for i, k := range e.fe.P.ghostKeysOf(typeKey(v.T)) {
			g := e.fe.P.Ghosts[k]
			if g.Name == n.Name && s.NumFields()+i < len(v.F) {
				return v.F[s.NumFields()+i], g.Type, nil
			}
		}
		return nil, nil, fmt.Errorf("no field %s in struct value %s", n.Name, v.T)
	case IfaceV:
		// ghost field on an interface type, keyed by the dynamic reference
		owner := typeKey(xt)
		if g := e.fe.P.ghostField(owner, n.Name); g != nil {
			val, err := e.st.loadField(v.Ref, owner, g.Name, g.Type)
			return val, g.Type, err
		}
		return nil, nil, fmt.Errorf("no ghost field %s on interface %s", n.Name, owner)
	case LocV:
		return e.selRef(v.Ref, v.T, n.Name)
	case Scalar:
		return e.selRef(v.T, xt, n.Name)
	}
	return nil, nil, fmt.Errorf("selector .%s on %T", n.Name, x)
}

func (e *Env) selRef(ref Term, xt types.Type, name string) (SVal, types.Type, error) {
	n := &ESel{Name: name}
	v := Scalar{ref}
	{
		owner, s, _, ok := structInfo(xt)
		if !ok {
			return nil, nil, fmt.Errorf("selector .%s on non-struct type %s", n.Name, xt)
		}
		for i := 0; i < s.NumFields(); i++ {
			f := s.Field(i)
			if f.Name() == n.Name {
				if isStructByValue(f.Type()) {
					// an embedded struct: a located value (reference + type)
					return LocV{e.st.embRef(v.T, owner, f.Name()), f.Type(), e.st}, f.Type(), nil
				}
				val, err := e.st.loadField(v.T, owner, f.Name(), f.Type())
				return val, f.Type(), err
			}
		}
		if g := e.fe.P.ghostField(owner, n.Name); g != nil {
			val, err := e.st.loadField(v.T, owner, g.Name, g.Type)
			return val, g.Type, err
		}
		// ghost state attached to an interface type, seen through an implementing pointer
		var ig *GhostField
		for _, k := range e.fe.P.ifaceGhostKeys() {
			if g := e.fe.P.Ghosts[k]; g.Name == n.Name {
				if ig != nil {
					return nil, nil, fmt.Errorf("ghost field %s is ambiguous between interface types", n.Name)
				}
				ig = g
			}
		}
		if ig != nil {
			val, err := e.st.loadField(v.T, ig.Owner, ig.Name, ig.Type)
			return val, ig.Type, err
		}
		return nil, nil, fmt.Errorf("no field or ghost field %s on %s", n.Name, owner)
	}
}

func (e *Env) evalArgs(args []Expr) ([]SVal, []types.Type, error) {
	var vs []SVal
	var ts []types.Type
	for _, a := range args {
		v, t, err := e.eval(a)
		if err != nil {
			return nil, nil, err
		}
		vs = append(vs, v)
		ts = append(ts, t)
	}
	return vs, ts, nil
}

func (e *Env) evalCall(n *ECall) (SVal, types.Type, error) {
	if e.depth > 40 {
		return nil, nil, fmt.Errorf("spec function recursion too deep")
	}
	// method-style spec function: x.m(args)
	if sel, ok := n.Fun.(*ESel); ok {
		// package-qualified function?
		if id, ok := sel.X.(*EIdent); ok {
			if _, bound := e.vars[id.Name]; !bound {
				if _, isBind := e.st.binds[id.Name]; !isBind {
					if _, isPkg := e.fe.P.ByName[id.Name]; isPkg {
						pp := e.fe.P.resolvePkg(id.Name)
						if sf := e.fe.P.SpecFuncs[pp+"."+sel.Name]; sf != nil {
							args, _, err := e.evalArgs(n.Args)
							if err != nil {
								return nil, nil, err
							}
							return e.applySpecFunc(sf, nil, nil, args)
						}
					}
				}
			}
		}
		recv, rt, err := e.eval(sel.X)
		if err != nil {
			return nil, nil, err
		}
		tk := ""
		if p, isP := rt.Underlying().(*types.Pointer); isP {
			tk = typeKey(p.Elem())
		} else {
			tk = typeKey(rt)
		}
		sf := e.fe.P.SpecFuncs[tk+"."+sel.Name]
		if sf == nil {
			return nil, nil, fmt.Errorf("no spec function %s.%s", tk, sel.Name)
		}
		args, _, err := e.evalArgs(n.Args)
		if err != nil {
			return nil, nil, err
		}
		return e.applySpecFunc(sf, recv, rt, args)
	}
	id, ok := n.Fun.(*EIdent)
	if !ok {
		return nil, nil, fmt.Errorf("unsupported call expression")
	}
	// builtins
	switch id.Name {
	case "len", "cap":
		if len(n.Args) != 1 {
			return nil, nil, fmt.Errorf("%s takes one argument", id.Name)
		}
		v, _, err := e.eval(n.Args[0])
		if err != nil {
			return nil, nil, err
		}
		switch s := v.(type) {
		case SliceV:
			if id.Name == "len" {
				return Scalar{s.Len}, tInt, nil
			}
			return Scalar{s.Cap}, tInt, nil
		case Scalar:
			if s.T.Sort == SStr {
				return Scalar{App(SInt, "strlen", s.T)}, tInt, nil
			}
		}
		return nil, nil, fmt.Errorf("len of %T", v)
	case "arr", "off":
		v, _, err := e.eval(n.Args[0])
		if err != nil {
			return nil, nil, err
		}
		s, ok := v.(SliceV)
		if !ok {
			return nil, nil, fmt.Errorf("%s of non-slice", id.Name)
		}
		if id.Name == "arr" {
			return Scalar{s.Arr}, tInt, nil
		}
		return Scalar{s.Off}, tInt, nil
	case "min", "max":
		a, ta, err := e.evalTerm(n.Args[0])
		if err != nil {
			return nil, nil, err
		}
		for _, x := range n.Args[1:] {
			b, _, err := e.evalTerm(x)
			if err != nil {
				return nil, nil, err
			}
			if a.Sort != b.Sort {
				a, b = coerce(a, b)
				ta = tReal
			}
			if id.Name == "min" {
				a = Min(a, b)
			} else {
				a = Max(a, b)
			}
		}
		return Scalar{a}, ta, nil
	case "abs":
		a, ta, err := e.evalTerm(n.Args[0])
		if err != nil {
			return nil, nil, err
		}
		return Scalar{Ite(Ge(a, zeroTerm(a.Sort)), a, Neg(a))}, ta, nil
	case "real":
		a, _, err := e.evalTerm(n.Args[0])
		if err != nil {
			return nil, nil, err
		}
		return Scalar{ToReal(a)}, tReal, nil
	case "floor":
		a, _, err := e.evalTerm(n.Args[0])
		if err != nil {
			return nil, nil, err
		}
		if a.Sort == SInt {
			return Scalar{a}, tInt, nil
		}
		return Scalar{App(SInt, "to_int", a)}, tInt, nil
	case "fresh":
		// allocated during this call: birth >= old(now)
		v, _, err := e.eval(n.Args[0])
		if err != nil {
			return nil, nil, err
		}
		o := e.old
		if o == nil {
			o = e.st
		}
		r := refOf(v)
		return Scalar{And(Neq(r, IntLit(0)), Ge(birth(r), o.now), Lt(birth(r), e.st.now), Eq(App(SInt, "tagof", r), IntLit(0)))}, tBool, nil
	case "owner", "rowof":
		v, _, err := e.eval(n.Args[0])
		if err != nil {
			return nil, nil, err
		}
		return Scalar{App(SInt, id.Name, refOf(v))}, tInt, nil
	case "wrap64", "wrap32", "wrap16", "wrap8":
		a, _, err := e.evalTerm(n.Args[0])
		if err != nil {
			return nil, nil, err
		}
		bits := map[string]int{"wrap64": 64, "wrap32": 32, "wrap16": 16, "wrap8": 8}[id.Name]
		return Scalar{App(SInt, "mod", a, pow2(bits))}, tInt, nil
	case "deref":
		v, t, err := e.eval(n.Args[0])
		if err != nil {
			return nil, nil, err
		}
		pt, ok := t.Underlying().(*types.Pointer)
		if !ok || !isStructByValue(pt.Elem()) {
			return nil, nil, fmt.Errorf("deref needs a pointer to a struct")
		}
		return LocV{refOf(v), pt.Elem(), e.st}, pt.Elem(), nil
	case "f32add", "f32sub", "f32lt":
		a, _, err := e.evalTerm(n.Args[0])
		if err != nil {
			return nil, nil, err
		}
		b, _, err := e.evalTerm(n.Args[1])
		if err != nil {
			return nil, nil, err
		}
		switch id.Name {
		case "f32add":
			return Scalar{App(SF32, e.fe.uninterp("f32.add", []Term{a, b}, SF32), a, b)}, types.Typ[types.Float32], nil
		case "f32sub":
			return Scalar{App(SF32, e.fe.uninterp("f32.sub", []Term{a, b}, SF32), a, b)}, types.Typ[types.Float32], nil
		}
		return Scalar{App(SBool, e.fe.uninterp("f32.lt", []Term{a, b}, SBool), a, b)}, tBool, nil
	case "f32of":
		a, _, err := e.evalTerm(n.Args[0])
		if err != nil {
			return nil, nil, err
		}
		return Scalar{App(SF32, e.fe.uninterp("f32.of_int", []Term{a}, SF32), a)}, types.Typ[types.Float32], nil
	case "f32zero":
		return Scalar{Term{"f32.zero", SF32}}, types.Typ[types.Float32], nil
	case "f32c":
		s, ok := n.Args[0].(*EStr)
		if !ok {
			return nil, nil, fmt.Errorf("f32c needs the exact constant as a string")
		}
		name := e.fe.uninterp("f32.const."+s.V, nil, SF32)
		return Scalar{Term{name, SF32}}, types.Typ[types.Float32], nil
	case "heapobj":
		v, _, err := e.eval(n.Args[0])
		if err != nil {
			return nil, nil, err
		}
		return Scalar{Eq(App(SInt, "tagof", refOf(v)), IntLit(0))}, tBool, nil
	case "allocated":
		v, _, err := e.eval(n.Args[0])
		if err != nil {
			return nil, nil, err
		}
		r := refOf(v)
		return Scalar{And(Neq(r, IntLit(0)), Lt(birth(r), e.st.now))}, tBool, nil
	case "isnil":
		v, _, err := e.eval(n.Args[0])
		if err != nil {
			return nil, nil, err
		}
		t, err := valEq(v, Scalar{IntLit(0)})
		return Scalar{t}, tBool, err
	case "ref":
		v, _, err := e.eval(n.Args[0])
		if err != nil {
			return nil, nil, err
		}
		return Scalar{refOf(v)}, tInt, nil
	case "dyntype":
		v, _, err := e.eval(n.Args[0])
		if err != nil {
			return nil, nil, err
		}
		if i, ok := v.(IfaceV); ok {
			return Scalar{i.Typ}, tInt, nil
		}
		return nil, nil, fmt.Errorf("dyntype of non-interface")
	case "sitearg", "siteres", "sitehappened":
		// like callarg/callres/happened but indexed by the static call-site ordinal
		// (the k of "call f#k ..."), taking the site's latest execution on this path
		s, ok := n.Args[0].(*EStr)
		k, ok2 := n.Args[1].(*EInt)
		if !ok || !ok2 {
			return nil, nil, fmt.Errorf("%s(\"callee\", site[, i])", id.Name)
		}
		var kk, ii int
		fmt.Sscanf(k.V, "%d", &kk)
		rec, have := e.st.callLog[fmt.Sprintf("%s@%d", s.V, kk)]
		if id.Name == "sitehappened" {
			return Scalar{BoolLit(have)}, tBool, nil
		}
		if !have {
			return nil, nil, fmt.Errorf("%s: call site %s@%d was not executed on this path (guard with sitehappened)", id.Name, s.V, kk)
		}
		if id.Name == "siteres" {
			if rec.res == nil {
				return nil, nil, fmt.Errorf("siteres: %s has no result", s.V)
			}
			return rec.res, rec.resT, nil
		}
		if len(n.Args) > 2 {
			if i, ok := n.Args[2].(*EInt); ok {
				fmt.Sscanf(i.V, "%d", &ii)
			}
		}
		if ii >= len(rec.args) {
			return nil, nil, fmt.Errorf("sitearg: %s has %d arguments", s.V, len(rec.args))
		}
		return rec.args[ii], rec.argT[ii], nil
	case "atcall":
		// atcall("callee", k, expr): expr evaluated in the state just before the k-th call of callee on this path
		s, ok := n.Args[0].(*EStr)
		k, ok2 := n.Args[1].(*EInt)
		if !ok || !ok2 || len(n.Args) != 3 {
			return nil, nil, fmt.Errorf("atcall(\"callee\", k, expr)")
		}
		var kk int
		fmt.Sscanf(k.V, "%d", &kk)
		rec, have := e.st.callLog[fmt.Sprintf("%s#%d", s.V, kk)]
		if !have || rec.pre == nil {
			return nil, nil, fmt.Errorf("atcall: call %s#%d did not happen on this path (guard with happened)", s.V, kk)
		}
		ne := *e
		if ne.live == nil {
			ne.live = e.st
		}
		ne.st = rec.pre
		return ne.eval(n.Args[2])
	case "happened":
		s, ok := n.Args[0].(*EStr)
		k, ok2 := n.Args[1].(*EInt)
		if !ok || !ok2 {
			return nil, nil, fmt.Errorf("happened(\"callee\", k)")
		}
		var kk int
		fmt.Sscanf(k.V, "%d", &kk)
		_, have := e.st.callLog[fmt.Sprintf("%s#%d", s.V, kk)]
		return Scalar{BoolLit(have)}, tBool, nil
	case "callseq":
		s, ok := n.Args[0].(*EStr)
		k, ok2 := n.Args[1].(*EInt)
		if !ok || !ok2 {
			return nil, nil, fmt.Errorf("callseq(\"callee\", k)")
		}
		var kk int
		fmt.Sscanf(k.V, "%d", &kk)
		rec, have := e.st.callLog[fmt.Sprintf("%s#%d", s.V, kk)]
		if !have {
			return nil, nil, fmt.Errorf("callseq: call %s#%d did not happen on this path (guard with ncalls)", s.V, kk)
		}
		return Scalar{IntLit(int64(rec.seq))}, tInt, nil
	case "funcval":
		s, ok := n.Args[0].(*EStr)
		if !ok {
			return nil, nil, fmt.Errorf("funcval needs a string literal")
		}
		name := e.fe.P.canonFuncName(s.V)
		fn := e.fe.P.Funcs[name]
		if fn == nil {
			return nil, nil, fmt.Errorf("funcval: unknown function %s", name)
		}
		return Scalar{e.fe.funcRef(fn)}, tInt, nil
	case "constof":
		// constof("pkgpath", "name"): a package-level constant of any loaded package
		p1, ok := n.Args[0].(*EStr)
		p2, ok2 := n.Args[1].(*EStr)
		if !ok || !ok2 {
			return nil, nil, fmt.Errorf("constof(\"pkgpath\", \"name\")")
		}
		tp := e.fe.P.typesPkg(e.fe.P.resolvePkg(p1.V))
		if tp == nil {
			return nil, nil, fmt.Errorf("constof: unknown package %s", p1.V)
		}
		c, isC := tp.Scope().Lookup(p2.V).(*types.Const)
		if !isC {
			return nil, nil, fmt.Errorf("constof: %s.%s is not a constant", p1.V, p2.V)
		}
		return constVal(e.fe, c.Val(), c.Type())
	case "mapget":
		// mapget(m, key): the abstract content of a map (stable until the map may be written)
		m, mt, err := e.eval(n.Args[0])
		if err != nil {
			return nil, nil, err
		}
		k, _, err := e.eval(n.Args[1])
		if err != nil {
			return nil, nil, err
		}
		mp, isMap := mt.Underlying().(*types.Map)
		if !isMap {
			return nil, nil, fmt.Errorf("mapget on non-map")
		}
		v, err := e.st.mapGet(refOf(m), flatten(k), mp)
		return v, mp.Elem(), err
	case "ncalls":
		if s, ok := n.Args[0].(*EStr); ok {
			return Scalar{e.st.numCalls(s.V)}, tInt, nil
		}
		return nil, nil, fmt.Errorf("ncalls needs a string literal")
	case "callarg", "callres":
		s, ok := n.Args[0].(*EStr)
		k, ok2 := n.Args[1].(*EInt)
		if !ok || !ok2 {
			return nil, nil, fmt.Errorf("%s(\"callee\", k[, i])", id.Name)
		}
		var kk, ii int
		fmt.Sscanf(k.V, "%d", &kk)
		key := fmt.Sprintf("%s#%d", s.V, kk)
		rec, have := e.st.callLog[key]
		if !have {
			// the call did not happen on this path: an unconstrained value can satisfy nothing useful
			return nil, nil, fmt.Errorf("%s: call %s did not happen on this path (guard with ncalls)", id.Name, key)
		}
		if id.Name == "callres" {
			if rec.res == nil {
				return nil, nil, fmt.Errorf("callres: %s has no result", key)
			}
			return rec.res, rec.resT, nil
		}
		if i, ok := n.Args[2].(*EInt); ok {
			fmt.Sscanf(i.V, "%d", &ii)
		}
		if ii >= len(rec.args) {
			return nil, nil, fmt.Errorf("callarg: %s has %d arguments", key, len(rec.args))
		}
		return rec.args[ii], rec.argT[ii], nil
	case "unboxint":
		v, _, err := e.eval(n.Args[0])
		if err != nil {
			return nil, nil, err
		}
		i, ok := v.(IfaceV)
		if !ok {
			return nil, nil, fmt.Errorf("unboxint of non-interface")
		}
		return Scalar{i.Ref}, tInt, nil
	case "unboxstr":
		v, _, err := e.eval(n.Args[0])
		if err != nil {
			return nil, nil, err
		}
		i, ok := v.(IfaceV)
		if !ok {
			return nil, nil, fmt.Errorf("unboxstr of non-interface")
		}
		_, un := e.fe.boxFuncs(SStr)
		return Scalar{App(SStr, un, i.Ref)}, tString, nil
	case "asiface":
		// asiface("*pkg.T", p): the interface value holding pointer p with dynamic type *pkg.T
		ts, ok := n.Args[0].(*EStr)
		if !ok {
			return nil, nil, fmt.Errorf("asiface(\"*pkg.T\", p)")
		}
		v, _, err := e.eval(n.Args[1])
		if err != nil {
			return nil, nil, err
		}
		it, err := e.fe.P.resolveType("any", e.pkg)
		if len(n.Args) > 2 {
			if is, ok := n.Args[2].(*EStr); ok {
				it, err = e.fe.P.resolveType(is.V, e.pkg)
			}
		}
		if err != nil {
			return nil, nil, err
		}
		return IfaceV{e.fe.typeCodeByName(ts.V), refOf(v)}, it, nil
	case "typecode":
		// typecode("*pkg.T") : code of a dynamic type
		if s, ok := n.Args[0].(*EStr); ok {
			return Scalar{e.fe.typeCodeByName(s.V)}, tInt, nil
		}
		return nil, nil, fmt.Errorf("typecode needs a string literal")
	}
	// package-level spec function
	if sf := e.fe.P.SpecFuncs[e.pkg+"."+id.Name]; sf != nil {
		args, _, err := e.evalArgs(n.Args)
		if err != nil {
			return nil, nil, err
		}
		return e.applySpecFunc(sf, nil, nil, args)
	}
	// search any package (unique name)
	var found *SpecFunc
	for k, sf := range e.fe.P.SpecFuncs {
		if strings.HasSuffix(k, "."+id.Name) && sf.RecvType == "" {
			if found != nil {
				return nil, nil, fmt.Errorf("ambiguous spec function %s", id.Name)
			}
			found = sf
		}
	}
	if found != nil {
		args, _, err := e.evalArgs(n.Args)
		if err != nil {
			return nil, nil, err
		}
		return e.applySpecFunc(found, nil, nil, args)
	}
	return nil, nil, fmt.Errorf("unknown spec function %s", id.Name)
}

func refOf(v SVal) Term {
	switch x := v.(type) {
	case LocV:
		return x.Ref
	case Scalar:
		return x.T
	case SliceV:
		return x.Arr
	case IfaceV:
		return x.Ref
	}
	panic(fmt.Sprintf("refOf %T", v))
}

func (e *Env) applySpecFunc(sf *SpecFunc, recv SVal, recvT types.Type, args []SVal) (SVal, types.Type, error) {
	if len(args) != len(sf.Params) {
		return nil, nil, fmt.Errorf("spec function %s: %d args, want %d", sf.Key(), len(args), len(sf.Params))
	}
	retT, err := e.fe.P.resolveType(sf.Ret, sf.Pkg)
	if err != nil {
		return nil, nil, fmt.Errorf("spec function %s: %v", sf.Key(), err)
	}
	if sf.Abstract {
		var flat []Term
		if recv != nil {
			flat = append(flat, flatten(recv)...)
		}
		for _, a := range args {
			flat = append(flat, flatten(a)...)
		}
		cs, err := compsOf(retT)
		if err != nil || len(cs) != 1 {
			return nil, nil, fmt.Errorf("abstract function %s: unsupported result type", sf.Key())
		}
		name := e.fe.uninterp("sf."+shortFn(sf.Key()), flat, cs[0].sort)
		if len(flat) == 0 {
			return Scalar{Term{name, cs[0].sort}}, retT, nil
		}
		return Scalar{App(cs[0].sort, name, flat...)}, retT, nil
	}
	if sf.Rec {
		return e.applyRecFunc(sf, recv, recvT, args, retT)
	}
	ne := e.child()
	ne.vars = map[string]Binding{}
	ne.pkg = sf.Pkg
	ne.depth = e.depth + 1
	if sf.RecvName != "" {
		if recv == nil {
			return nil, nil, fmt.Errorf("spec method %s needs a receiver", sf.Key())
		}
		ne.vars[sf.RecvName] = Binding{recv, recvT}
	}
	for i, p := range sf.Params {
		pt, err := e.fe.P.resolveType(p.Type, sf.Pkg)
		if err != nil {
			return nil, nil, err
		}
		ne.vars[p.Name] = Binding{args[i], pt}
	}
	v, _, err := ne.eval(sf.Body)
	if err != nil {
		return nil, nil, fmt.Errorf("in %s: %v", sf.Key(), err)
	}
	return v, retT, nil
}

// applyRecFunc: a recursive spec function is emitted as an SMT define-fun-rec
// specialised to the heap of the state it is evaluated in (the heap terms occur
// in the body); its parameters are scalars. Uses in the same state with the
// same heap share one symbol, so callee ensures and caller obligations talk
// about the same function.
func (e *Env) applyRecFunc(sf *SpecFunc, recv SVal, recvT types.Type, args []SVal, retT types.Type) (SVal, types.Type, error) {
	cs, err := compsOf(retT)
	if err != nil || len(cs) != 1 {
		return nil, nil, fmt.Errorf("rec function %s: unsupported result type", sf.Key())
	}
	var actual []Term
	if sf.RecvName != "" {
		if recv == nil {
			return nil, nil, fmt.Errorf("rec method %s needs a receiver", sf.Key())
		}
		actual = append(actual, refOf(recv))
	}
	for _, a := range args {
		t, ok := a.(Scalar)
		if !ok {
			return nil, nil, fmt.Errorf("rec function %s: parameters must be scalars", sf.Key())
		}
		actual = append(actual, t.T)
	}
	if sym, ok := e.recStack[sf.Key()]; ok {
		return Scalar{App(cs[0].sort, sym, actual...)}, retT, nil
	}
	// evaluate the body once with formal parameters
	sym := e.fe.freshName("rec." + shortFn(sf.Key()))
	ne := e.child()
	ne.vars = map[string]Binding{}
	ne.pkg = sf.Pkg
	ne.depth = e.depth + 1
	ne.recStack = map[string]string{}
	for k, v := range e.recStack {
		ne.recStack[k] = v
	}
	ne.recStack[sf.Key()] = sym
	var formals []BoundVar
	mk := func(name string, t types.Type) (Term, error) {
		c, err := compsOf(t)
		if err != nil || len(c) != 1 {
			return Term{}, fmt.Errorf("rec function %s: parameter %s must be a scalar", sf.Key(), name)
		}
		*e.qn++
		fn := fmt.Sprintf("%s!q%dr", name, *e.qn)
		formals = append(formals, BoundVar{fn, c[0].sort})
		return Term{fn, c[0].sort}, nil
	}
	if sf.RecvName != "" {
		ft, err := mk(sf.RecvName, recvT)
		if err != nil {
			return nil, nil, err
		}
		ne.vars[sf.RecvName] = Binding{Scalar{ft}, recvT}
	}
	for _, p := range sf.Params {
		pt, err := e.fe.P.resolveType(p.Type, sf.Pkg)
		if err != nil {
			return nil, nil, err
		}
		ft, err := mk(p.Name, pt)
		if err != nil {
			return nil, nil, err
		}
		ne.vars[p.Name] = Binding{Scalar{ft}, pt}
	}
	body, _, err := ne.evalTerm(sf.Body)
	if err != nil {
		return nil, nil, fmt.Errorf("in %s: %v", sf.Key(), err)
	}
	// memoise on the body with the self symbol and formal names normalised
	norm := strings.ReplaceAll(body.S, sym, "SELF")
	for i, f := range formals {
		norm = strings.ReplaceAll(norm, f.Name, fmt.Sprintf("FORMAL%d", i))
	}
	mkey := sf.Key() + "|" + norm
	live := e.live
	if live == nil {
		live = e.st
	}
	if live.recDefs == nil {
		live.recDefs = map[string]string{}
	}
	if old, ok := live.recDefs[mkey]; ok {
		return Scalar{App(cs[0].sort, old, actual...)}, retT, nil
	}
	var ps []string
	for _, f := range formals {
		ps = append(ps, "("+f.Name+" "+f.Sort.String()+")")
	}
	live.ctx = live.ctx.Decl("(define-fun-rec " + sym + " (" + strings.Join(ps, " ") + ") " + cs[0].sort.String() + " " + body.S + ")")
	live.recDefs[mkey] = sym
	return Scalar{App(cs[0].sort, sym, actual...)}, retT, nil
}
