package main

// Symbolic state: Burstall-style heap (one SMT array per field / element
// component), allocation clock, local cells, SSA registers.

import (
	"fmt"
	"go/types"
	"sort"
	"strings"

	"golang.org/x/tools/go/ssa"
)

type Binding struct {
	V SVal
	T types.Type
}

type deferRec struct {
	instr *ssa.Defer
	args  []SVal
	recv  SVal
}

type State struct {
	localNames map[string]Term // constants naming large local values (see localEnv)
	fe         *FnExec
	ctx        Ctx
	heap       map[string]Term
	now        Term
	locals     map[*ssa.Alloc]SVal
	vals       map[ssa.Value]SVal
	binds      map[string]Binding
	facts      map[string]bool
	loops      []*Loop
	defers     []deferRec
	frames     []inlineFrame // inlined helper calls in progress (innermost last)
	prev       *ssa.BasicBlock
	trace      []string
	fresh      []Term
	dead       bool
	callCnt    map[string]int  // calls on this path (static index for callarg/callres/callseq)
	callNum    map[string]Term // symbolic number of calls so far (havoc'ed at loop heads): ncalls
	callLog    map[string]callRec
	recDefs    map[string]string
	callSeq    int
	mapVer     Term
	escaped    []*ssa.Alloc
	boxed      map[string]types.Type // interface payload reference -> static type of the boxed pointer
}

// mapGet: abstract map content, an uninterpreted function of the map reference,
// the key and a version that changes whenever maps may have been written.
func (st *State) mapGet(m Term, key []Term, mt *types.Map) (SVal, error) {
	if st.mapVer.Sort == nil {
		st.mapVer = IntLit(0)
	}
	et := mt.Elem()
	cs, err := compsOf(et)
	if err != nil {
		return nil, err
	}
	args := append([]Term{st.mapVer, m}, key...)
	ts := make([]Term, len(cs))
	for i, c := range cs {
		name := st.fe.uninterp("mapget."+typeKeyShort(mt.Key())+"."+typeKeyShort(et)+c.suffix, args, c.sort)
		ts[i] = App(c.sort, name, args...)
	}
	v := mkVal(et, ts)
	return v, nil
}

func (st *State) countCall(name string) {
	st.callCnt[name]++
	cur, ok := st.callNum[name]
	if !ok {
		cur = IntLit(0)
	}
	st.callNum[name] = Add(cur, IntLit(1))
}

func (st *State) numCalls(name string) Term {
	if t, ok := st.callNum[name]; ok {
		return t
	}
	return IntLit(0)
}

func (st *State) bumpMaps() {
	st.mapVer = st.freshConst("mapver", SInt)
}

type callRec struct {
	pre  *State // state just before the call (argument contents are read there)
	seq  int
	args []SVal
	argT []types.Type
	res  SVal
	resT types.Type
}

func (st *State) clone() *State {
	n := *st
	n.heap = make(map[string]Term, len(st.heap))
	for k, v := range st.heap {
		n.heap[k] = v
	}
	n.locals = make(map[*ssa.Alloc]SVal, len(st.locals))
	for k, v := range st.locals {
		n.locals[k] = v
	}
	n.vals = make(map[ssa.Value]SVal, len(st.vals))
	for k, v := range st.vals {
		n.vals[k] = v
	}
	n.binds = make(map[string]Binding, len(st.binds))
	for k, v := range st.binds {
		n.binds[k] = v
	}
	n.facts = make(map[string]bool, len(st.facts))
	for k, v := range st.facts {
		n.facts[k] = v
	}
	n.callCnt = make(map[string]int, len(st.callCnt))
	for k, v := range st.callCnt {
		n.callCnt[k] = v
	}
	n.callNum = make(map[string]Term, len(st.callNum))
	for k, v := range st.callNum {
		n.callNum[k] = v
	}
	if st.localNames != nil {
		n.localNames = make(map[string]Term, len(st.localNames))
		for k, v := range st.localNames {
			n.localNames[k] = v
		}
	}
	n.callLog = make(map[string]callRec, len(st.callLog))
	for k, v := range st.callLog {
		n.callLog[k] = v
	}
	n.recDefs = make(map[string]string, len(st.recDefs))
	for k, v := range st.recDefs {
		n.recDefs[k] = v
	}
	n.escaped = append([]*ssa.Alloc(nil), st.escaped...)
	n.boxed = make(map[string]types.Type, len(st.boxed))
	for k, v := range st.boxed {
		n.boxed[k] = v
	}
	n.loops = append([]*Loop(nil), st.loops...)
	n.defers = append([]deferRec(nil), st.defers...)
	n.frames = append([]inlineFrame(nil), st.frames...)
	n.trace = append([]string(nil), st.trace...)
	n.fresh = append([]Term(nil), st.fresh...)
	return &n
}

// snapshot returns a read-only copy sharing nothing mutable (used for old()).
func (st *State) snapshot() *State { return st.clone() }

func (st *State) assume(t Term, note string) {
	if t.S == "true" {
		return
	}
	if st.facts[t.S] {
		return
	}
	st.facts[t.S] = true
	st.ctx = st.ctx.Assume(t, note)
}

func (st *State) freshConst(prefix string, s *Sort) Term {
	name := st.fe.freshName(shortFn(prefix))
	st.ctx = st.ctx.Decl("(declare-const " + name + " " + s.String() + ")")
	return Term{name, s}
}

func (st *State) define(prefix string, t Term) Term {
	// keep literals and plain names as they are
	if !strings.HasPrefix(t.S, "(") {
		return t
	}
	name := st.fe.freshName(prefix)
	if len(t.S) > 120 {
		// a large term gets a constant of its own (an equation, not a macro): solvers
		// expand define-fun eagerly, which copies the term into every quantifier body
		// that mentions the name and defeats trigger matching
		st.ctx = st.ctx.Decl("(declare-const " + name + " " + t.Sort.String() + ")\n(assert (= " + name + " " + t.S + "))")
		return Term{name, t.Sort}
	}
	st.ctx = st.ctx.Decl("(define-fun " + name + " () " + t.Sort.String() + " " + t.S + ")")
	return Term{name, t.Sort}
}

// ---------------------------------------------------------------------------
// heap access

func (st *State) heapArr(key string, elem *Sort) Term {
	if t, ok := st.heap[key]; ok {
		return t
	}
	return st.fe.initHeapArr(key, elem)
}

func (st *State) setHeap(key string, t Term) {
	st.heap[key] = st.define("H", t)
}

func fieldKey(owner string, name string) string { return owner + "." + name }

func (st *State) embRef(ref Term, owner, field string) Term {
	fn := st.fe.embFunc(owner, field)
	return App(SInt, fn, ref)
}

// loadField reads field fld (type ft) of the object ref whose struct type key is owner.
func (st *State) loadField(ref Term, owner string, fname string, ft types.Type) (SVal, error) {
	if isStructByValue(ft) {
		// value of an embedded struct: load all its fields from the embedded ref
		er := st.embRef(ref, owner, fname)
		return st.loadStruct(er, ft)
	}
	cs, err := compsOf(ft)
	if err != nil {
		return nil, fmt.Errorf("field %s.%s: %v", owner, fname, err)
	}
	ts := make([]Term, len(cs))
	for i, c := range cs {
		ts[i] = Select(st.heapArr(fieldKey(owner, fname)+c.suffix, SArray(SInt, c.sort)), ref)
	}
	v := mkVal(ft, ts)
	st.assumeTypeInv(v, ft)
	return v, nil
}

func (st *State) loadStruct(ref Term, t types.Type) (SVal, error) {
	s := t.Underlying().(*types.Struct)
	owner := typeKey(t)
	sv := StructV{T: t}
	for i := 0; i < s.NumFields(); i++ {
		f := s.Field(i)
		v, err := st.loadField(ref, owner, f.Name(), f.Type())
		if err != nil {
			return nil, err
		}
		sv.F = append(sv.F, v)
	}
	for _, k := range st.fe.P.ghostKeysOf(owner) {
		g := st.fe.P.Ghosts[k]
		v, err := st.loadField(ref, owner, g.Name, g.Type)
		if err != nil {
			return nil, err
		}
		sv.F = append(sv.F, v)
	}
	return sv, nil
}

func (st *State) storeField(ref Term, owner string, fname string, ft types.Type, v SVal) error {
	if isStructByValue(ft) {
		er := st.embRef(ref, owner, fname)
		return st.storeStruct(er, ft, v)
	}
	cs, err := compsOf(ft)
	if err != nil {
		return fmt.Errorf("field %s.%s: %v", owner, fname, err)
	}
	ts := flatten(v)
	if len(ts) != len(cs) {
		return fmt.Errorf("store %s.%s: value has %d components, want %d (%T)", owner, fname, len(ts), len(cs), v)
	}
	for i, c := range cs {
		key := fieldKey(owner, fname) + c.suffix
		arr := st.heapArr(key, SArray(SInt, c.sort))
		val := ts[i]
		if val.Sort != c.sort {
			if c.sort == SReal && val.Sort == SInt {
				val = ToReal(val)
			} else {
				return fmt.Errorf("store %s: sort mismatch %s vs %s", key, val.Sort, c.sort)
			}
		}
		st.setHeap(key, Store(arr, ref, val))
	}
	return nil
}

func (st *State) storeStruct(ref Term, t types.Type, v SVal) error {
	sv, ok := v.(StructV)
	if !ok {
		return fmt.Errorf("storeStruct: value is %T", v)
	}
	s := t.Underlying().(*types.Struct)
	owner := typeKey(t)
	for i := 0; i < s.NumFields(); i++ {
		f := s.Field(i)
		if err := st.storeField(ref, owner, f.Name(), f.Type(), sv.F[i]); err != nil {
			return err
		}
	}
	// ghost fields travel with the value (when the value carries them)
	gk := st.fe.P.ghostKeysOf(owner)
	if len(sv.F) == s.NumFields()+len(gk) {
		for i, k := range gk {
			g := st.fe.P.Ghosts[k]
			if err := st.storeField(ref, owner, g.Name, g.Type, sv.F[s.NumFields()+i]); err != nil {
				return err
			}
		}
	}
	return nil
}

func elemKey(et types.Type) string { return "elems:" + typeKey(et) }

func (st *State) loadElem(arr, idx Term, et types.Type) (SVal, error) {
	if isStructByValue(et) {
		return nil, fmt.Errorf("slices of struct values are unsupported (%s)", et)
	}
	cs, err := compsOf(et)
	if err != nil {
		return nil, err
	}
	ts := make([]Term, len(cs))
	for i, c := range cs {
		h := st.heapArr(elemKey(et)+c.suffix, SArray(SInt, SArray(SInt, c.sort)))
		ts[i] = Select(Select(h, arr), idx)
	}
	v := mkVal(et, ts)
	st.assumeTypeInv(v, et)
	return v, nil
}

func (st *State) storeElem(arr, idx Term, et types.Type, v SVal) error {
	if isStructByValue(et) {
		return fmt.Errorf("slices of struct values are unsupported (%s)", et)
	}
	cs, err := compsOf(et)
	if err != nil {
		return err
	}
	ts := flatten(v)
	for i, c := range cs {
		key := elemKey(et) + c.suffix
		h := st.heapArr(key, SArray(SInt, SArray(SInt, c.sort)))
		val := ts[i]
		if val.Sort != c.sort && c.sort == SReal {
			val = ToReal(val)
		}
		st.setHeap(key, Store(h, arr, Store(Select(h, arr), idx, val)))
	}
	return nil
}

// assumeTypeInv adds the facts every well-typed Go value satisfies.
func (st *State) assumeTypeInv(v SVal, t types.Type) {
	// values that mention a bound variable of a quantifier cannot be constrained
	// by a top-level assumption
	for _, tm := range flatten(v) {
		if strings.Contains(tm.S, "!q") {
			return
		}
	}
	switch x := v.(type) {
	case Scalar:
		switch u := t.Underlying().(type) {
		case *types.Basic:
			if u.Info()&types.IsInteger != 0 {
				st.assume(rangeFact(x.T, t), "")
			}
		case *types.Pointer:
			st.assume(st.allocatedOrNil(x.T), "")
		}
	case SliceV:
		st.assume(And(Ge(x.Len, IntLit(0)), Ge(x.Cap, x.Len), Ge(x.Off, IntLit(0)), st.allocatedOrNil(x.Arr),
			Implies(Eq(x.Arr, IntLit(0)), Eq(x.Cap, IntLit(0)))), "")
	case IfaceV:
		st.assume(And(Ge(x.Typ, IntLit(0)), Implies(Eq(x.Typ, IntLit(0)), Eq(x.Ref, IntLit(0)))), "")
	}
}

func birth(r Term) Term { return App(SInt, "birth", r) }

func (st *State) allocatedOrNil(r Term) Term {
	if _, ok := intLitVal(r); ok {
		return TTrue
	}
	return Or(Eq(r, IntLit(0)), Lt(birth(r), st.now))
}

// newObject allocates a fresh reference.
func (st *State) newRef(prefix string) Term {
	r := st.freshConst(prefix, SInt)
	st.assume(And(Neq(r, IntLit(0)), Eq(App(SInt, "tagof", r), IntLit(0)), Eq(birth(r), st.now)), "fresh allocation")
	st.now = st.define("now", Add(st.now, IntLit(1)))
	st.fresh = append(st.fresh, r)
	return r
}

// zeroObject initialises all fields of a fresh struct object of type t.
func (st *State) zeroObject(ref Term, t types.Type) error {
	z, err := zeroVal(t)
	if err != nil {
		return err
	}
	if err := st.storeStruct(ref, t, z); err != nil {
		return err
	}
	// ghost state attached to interface types (keyed by the dynamic reference)
	// starts at zero for a fresh object as well
	for _, k := range st.fe.P.ifaceGhostKeys() {
		g := st.fe.P.Ghosts[k]
		zg, err := zeroVal(g.Type)
		if err != nil {
			return err
		}
		if err := st.storeField(ref, g.Owner, g.Name, g.Type, zg); err != nil {
			return err
		}
	}
	// ghost fields start at their zero value too
	owner := typeKey(t)
	for _, k := range st.fe.P.ghostKeysOf(owner) {
		g := st.fe.P.Ghosts[k]
		zg, err := zeroVal(g.Type)
		if err != nil {
			return err
		}
		if err := st.storeField(ref, owner, g.Name, g.Type, zg); err != nil {
			return err
		}
	}
	return nil
}

func (p *Program) ifaceGhostKeys() []string {
	var out []string
	for k, g := range p.Ghosts {
		if g.IsIface {
			out = append(out, k)
		}
	}
	sort.Strings(out)
	return out
}

func (p *Program) ghostKeysOf(owner string) []string {
	var out []string
	for k, g := range p.Ghosts {
		if g.Owner == owner {
			out = append(out, k)
		}
	}
	sort.Strings(out)
	return out
}

// freshValue returns an unconstrained value of type t (with type invariants).
func (st *State) freshValue(prefix string, t types.Type) (SVal, error) {
	if tup, ok := t.(*types.Tuple); ok {
		tv := TupleV{}
		for i := 0; i < tup.Len(); i++ {
			v, err := st.freshValue(fmt.Sprintf("%s.%d", prefix, i), tup.At(i).Type())
			if err != nil {
				return nil, err
			}
			tv.E = append(tv.E, v)
		}
		return tv, nil
	}
	if s, ok := t.Underlying().(*types.Struct); ok {
		sv := StructV{T: t}
		for i := 0; i < s.NumFields(); i++ {
			v, err := st.freshValue(prefix+"."+s.Field(i).Name(), s.Field(i).Type())
			if err != nil {
				return nil, err
			}
			sv.F = append(sv.F, v)
		}
		for _, k := range st.fe.P.ghostKeysOf(typeKey(t)) {
			g := st.fe.P.Ghosts[k]
			v, err := st.freshValue(prefix+"."+g.Name, g.Type)
			if err != nil {
				return nil, err
			}
			sv.F = append(sv.F, v)
		}
		return sv, nil
	}
	cs, err := compsOf(t)
	if err != nil {
		return nil, err
	}
	ts := make([]Term, len(cs))
	for i, c := range cs {
		ts[i] = st.freshConst(prefix+c.suffix, c.sort)
	}
	v := mkVal(t, ts)
	st.assumeTypeInv(v, t)
	return v, nil
}
