package main

// Contract language: lexer, AST and parser for the //@ comment files.

import (
	"fmt"
	"strconv"
	"strings"
	"unicode"
)

// ---------------------------------------------------------------------------
// AST

type Expr interface{}

type (
	EIdent struct{ Name string }
	EInt   struct{ V string }
	EReal  struct{ V string }
	EBool  struct{ V bool }
	EStr   struct{ V string }
	ENil   struct{}
	EUnary struct {
		Op string
		X  Expr
	}
	EBinary struct {
		Op   string
		X, Y Expr
	}
	ECond struct{ C, A, B Expr }
	ESel  struct {
		X    Expr
		Name string
	}
	EIndex struct{ X, I Expr }
	ESlice struct{ X, Lo, Hi Expr }
	ECall  struct {
		Fun  Expr
		Args []Expr
	}
	EOld   struct{ X Expr }
	EQuant struct {
		Forall bool
		Vars   []SParam
		Body   Expr
	}
	ELet struct {
		Name string
		Val  Expr
		Body Expr
	}
)

type SParam struct {
	Name string
	Type string // spec type text: int, bool, real, string, *T, T, pkg.T, []T
}

type Clause struct {
	Tags []string
	E    Expr
	Text string
	Line int
	File string
}

type GhostAssign struct {
	Target Expr // ESel (ghost field) or EIdent (ghost local)
	Val    Expr
	Text   string
}

type ModLoc struct {
	Kind string // "field" x.f | "all" x.* | "elems" elems(s) | "pix" pix(f) | "fresh"
	X    Expr
	Name string
	Text string
}

// OnlyClause: the local variable may be passed (directly or boxed) only to the
// listed call sites - a static resource discipline (e.g. the socket reader).
type OnlyClause struct {
	Local string
	Sites []string // "callee#k"
	Tags  []string
	Text  string
}

type CallGhost struct {
	Callee  string // text as written e.g. mp.recorder.WriteFrame
	Ordinal int
	Kind    string // "ghost" (argument) | "bind" (capture result) | "assert"
	Name    string
	Val     Expr
	Tags    []string
	Text    string
}

// ImplClause: "implements [tags] pkg.Iface inv predName" on a method contract: the
// method is checked to refine the interface method's contract (behavioural subtyping).
type ImplClause struct {
	Tags  []string
	Iface string
	Inv   string
}

// GuardDecl: lock-discipline declarations. Target is "T.f" (field f of struct type T
// of the package) or, with Global, the name of a package-level variable.
type GuardDecl struct {
	Pkg    string
	Kind   string // "guarded" | "immutable"
	Global bool
	Target string
	Mutex  string // guarded: field of the same struct (or, for a global, package-level variable) holding the sync.Mutex
}

type FuncContract struct {
	Pkg         string // package path
	RecvName    string
	RecvType    string // "*FrameLoop" / "FrameLoop" / "" ; for iface: interface type name
	Kind        string // "func" | "iface" | "functype" | "fieldfunc"
	Name        string
	ParamNames  []string
	HasParams   bool
	ResNames    []string
	Tags        []string
	Requires    []Clause
	Ensures     []Clause
	Checks      []Clause // internal postconditions: may mention locals; not visible to callers
	Modifies    []ModLoc
	ModifiesSet bool
	GhostEntry  []GhostAssign
	GhostExit   []GhostAssign
	LoopInv     map[int][]Clause
	LoopMod     map[int][]ModLoc
	CallGhosts  []CallGhost
	GhostParams []string
	Only        []OnlyClause
	Impl        *ImplClause
	ReadOnly    []OnlyClause // "readonly [tags] p": no store through parameter p (static)
	Thread      string       // "any": may run on a thread other than the frame loop's (lock discipline applies to every access)
	PanicsIf    *Clause      // "panics if cond": an explicit panic is allowed exactly when cond holds (locals visible)
	Callees     []string     // whitelist of callee short names (empty = unrestricted)
	CalleesTags []string
	Mode        string // "" strict | "permissive" | "trusted"
	Allocates   bool
	File        string
	Line        int
}

func (fc *FuncContract) Key() string {
	switch fc.Kind {
	case "iface":
		return "iface " + fc.Pkg + "." + fc.RecvType + "." + fc.Name
	case "functype":
		return "functype " + fc.Pkg + "." + fc.Name
	case "fieldfunc":
		return "fieldfunc " + fc.Pkg + "." + fc.RecvType + "." + fc.Name
	}
	if fc.RecvType != "" {
		if strings.HasPrefix(fc.RecvType, "*") {
			return "(*" + fc.Pkg + "." + fc.RecvType[1:] + ")." + fc.Name
		}
		return "(" + fc.Pkg + "." + fc.RecvType + ")." + fc.Name
	}
	return fc.Pkg + "." + fc.Name
}

type GhostFieldDecl struct {
	Pkg, TypeName, Field, Type string
}

type SpecFunc struct {
	Pkg      string
	RecvName string
	RecvType string
	Name     string
	Params   []SParam
	Ret      string
	Body     Expr // nil for abstract
	IsPred   bool
	Abstract bool
	Rec      bool
	Heap     bool // abstract function that also depends on the heap (not supported) - unused
	File     string
	Line     int
}

func (sf *SpecFunc) Key() string {
	if sf.RecvType != "" {
		return sf.Pkg + "." + strings.TrimPrefix(sf.RecvType, "*") + "." + sf.Name
	}
	return sf.Pkg + "." + sf.Name
}

type AxiomDecl struct {
	Pkg  string
	Name string
	E    Expr
	Text string
}

type LemmaDecl struct {
	Pkg  string
	Name string
	Tags []string
	E    Expr
	Text string
}

type InvariantDecl struct {
	Pkg  string
	Name string
}

type SpecFile struct {
	Pkg     string
	Path    string
	Ghosts  []GhostFieldDecl
	Funcs   []*SpecFunc
	Contrs  []*FuncContract
	Axioms  []AxiomDecl
	Lemmas  []LemmaDecl
	Guards  []GuardDecl
	Opaque  []string          // functions of the repository abstracted at every call (never executed in place)
	Imports map[string]string // alias -> package path
}

// ---------------------------------------------------------------------------
// Lexer

type tok struct {
	kind string // ident int real str op eof
	text string
	pos  int
}

func lex(s string) ([]tok, error) {
	var out []tok
	i := 0
	for i < len(s) {
		c := s[i]
		switch {
		case c == ' ' || c == '\t' || c == '\n' || c == '\r':
			i++
		case c == '/' && i+1 < len(s) && s[i+1] == '/':
			// comment to end of line
			for i < len(s) && s[i] != '\n' {
				i++
			}
		case unicode.IsLetter(rune(c)) || c == '_' || c == '$':
			j := i
			for j < len(s) && (unicode.IsLetter(rune(s[j])) || unicode.IsDigit(rune(s[j])) || s[j] == '_' || s[j] == '$') {
				j++
			}
			out = append(out, tok{"ident", s[i:j], i})
			i = j
		case c >= '0' && c <= '9':
			j := i
			isReal := false
			for j < len(s) && ((s[j] >= '0' && s[j] <= '9') || s[j] == '_' || (s[j] == '.' && j+1 < len(s) && s[j+1] >= '0' && s[j+1] <= '9')) {
				if s[j] == '.' {
					isReal = true
				}
				j++
			}
			txt := strings.ReplaceAll(s[i:j], "_", "")
			if isReal {
				out = append(out, tok{"real", txt, i})
			} else {
				out = append(out, tok{"int", txt, i})
			}
			i = j
		case c == '"':
			j := i + 1
			for j < len(s) && s[j] != '"' {
				if s[j] == '\\' {
					j++
				}
				j++
			}
			if j >= len(s) {
				return nil, fmt.Errorf("unterminated string at %d", i)
			}
			lit := s[i+1 : j]
			if uq, err := strconv.Unquote("\"" + lit + "\""); err == nil {
				lit = uq
			}
			out = append(out, tok{"str", lit, i})
			i = j + 1
		default:
			ops := []string{"<==>", "==>", "::", ":=", "==", "!=", "<=", ">=", "&&", "||", ".*"}
			matched := false
			for _, op := range ops {
				if strings.HasPrefix(s[i:], op) {
					out = append(out, tok{"op", op, i})
					i += len(op)
					matched = true
					break
				}
			}
			if matched {
				continue
			}
			if strings.ContainsRune("+-*/%<>!()[]{}.,?:=#;&", rune(c)) {
				out = append(out, tok{"op", string(c), i})
				i++
				continue
			}
			return nil, fmt.Errorf("unexpected character %q at %d in %q", c, i, s)
		}
	}
	out = append(out, tok{"eof", "", len(s)})
	return out, nil
}

// ---------------------------------------------------------------------------
// Expression parser (precedence climbing)

type parser struct {
	toks []tok
	p    int
	src  string
}

func (ps *parser) peek() tok { return ps.toks[ps.p] }
func (ps *parser) next() tok { t := ps.toks[ps.p]; ps.p++; return t }
func (ps *parser) isOp(s string) bool {
	t := ps.peek()
	return t.kind == "op" && t.text == s
}
func (ps *parser) isIdent(s string) bool {
	t := ps.peek()
	return t.kind == "ident" && t.text == s
}
func (ps *parser) accept(s string) bool {
	if ps.isOp(s) {
		ps.p++
		return true
	}
	return false
}
func (ps *parser) expect(s string) {
	if !ps.accept(s) {
		panic(fmt.Errorf("expected %q at %d in %q (got %q)", s, ps.peek().pos, ps.src, ps.peek().text))
	}
}

func parseExpr(src string) (e Expr, err error) {
	toks, err := lex(src)
	if err != nil {
		return nil, err
	}
	ps := &parser{toks: toks, src: src}
	defer func() {
		if r := recover(); r != nil {
			if er, ok := r.(error); ok {
				err = er
				return
			}
			panic(r)
		}
	}()
	e = ps.parseImplies()
	if ps.peek().kind != "eof" {
		return nil, fmt.Errorf("trailing tokens at %d in %q", ps.peek().pos, src)
	}
	return e, nil
}

func (ps *parser) parseImplies() Expr {
	if ps.isIdent("forall") || ps.isIdent("exists") {
		return ps.parseQuant()
	}
	if ps.isIdent("let") {
		ps.next()
		name := ps.next().text
		ps.expect("=")
		v := ps.parseCond()
		if !ps.isIdent("in") {
			panic(fmt.Errorf("expected 'in' in let at %d in %q", ps.peek().pos, ps.src))
		}
		ps.next()
		body := ps.parseImplies()
		return &ELet{name, v, body}
	}
	l := ps.parseCond()
	if ps.accept("==>") {
		r := ps.parseImplies()
		return &EBinary{"==>", l, r}
	}
	if ps.accept("<==>") {
		r := ps.parseImplies()
		return &EBinary{"==", l, r}
	}
	return l
}

func (ps *parser) parseQuant() Expr {
	q := ps.next().text
	var vars []SParam
	for {
		name := ps.next()
		if name.kind != "ident" {
			panic(fmt.Errorf("expected bound variable in %q", ps.src))
		}
		typ := ps.parseTypeText()
		vars = append(vars, SParam{name.text, typ})
		if !ps.accept(",") {
			break
		}
	}
	ps.expect("::")
	body := ps.parseImplies()
	return &EQuant{Forall: q == "forall", Vars: vars, Body: body}
}

func (ps *parser) parseTypeText() string {
	var b strings.Builder
	for ps.isOp("*") || ps.isOp("[") {
		if ps.accept("*") {
			b.WriteString("*")
		} else {
			ps.expect("[")
			ps.expect("]")
			b.WriteString("[]")
		}
	}
	t := ps.next()
	if t.kind != "ident" {
		panic(fmt.Errorf("expected type at %d in %q", t.pos, ps.src))
	}
	b.WriteString(t.text)
	if ps.isOp(".") && ps.toks[ps.p+1].kind == "ident" {
		ps.next()
		b.WriteString("." + ps.next().text)
	}
	return b.String()
}

func (ps *parser) parseCond() Expr {
	c := ps.parseOr()
	if ps.accept("?") {
		a := ps.parseCond()
		ps.expect(":")
		b := ps.parseCond()
		return &ECond{c, a, b}
	}
	return c
}

func (ps *parser) parseOr() Expr {
	l := ps.parseAnd()
	for ps.accept("||") {
		r := ps.parseAnd()
		l = &EBinary{"||", l, r}
	}
	return l
}

func (ps *parser) parseAnd() Expr {
	l := ps.parseCmp()
	for ps.accept("&&") {
		r := ps.parseCmp()
		l = &EBinary{"&&", l, r}
	}
	return l
}

func (ps *parser) parseCmp() Expr {
	l := ps.parseAdd()
	for {
		t := ps.peek()
		if t.kind == "op" {
			switch t.text {
			case "==", "!=", "<", "<=", ">", ">=":
				ps.next()
				r := ps.parseAdd()
				l = &EBinary{t.text, l, r}
				continue
			}
		}
		return l
	}
}

func (ps *parser) parseAdd() Expr {
	l := ps.parseMul()
	for {
		if ps.accept("+") {
			l = &EBinary{"+", l, ps.parseMul()}
		} else if ps.accept("-") {
			l = &EBinary{"-", l, ps.parseMul()}
		} else {
			return l
		}
	}
}

func (ps *parser) parseMul() Expr {
	l := ps.parseUnary()
	for {
		if ps.accept("*") {
			l = &EBinary{"*", l, ps.parseUnary()}
		} else if ps.accept("/") {
			l = &EBinary{"/", l, ps.parseUnary()}
		} else if ps.accept("%") {
			l = &EBinary{"%", l, ps.parseUnary()}
		} else {
			return l
		}
	}
}

func (ps *parser) parseUnary() Expr {
	if ps.accept("!") {
		return &EUnary{"!", ps.parseUnary()}
	}
	if ps.accept("-") {
		return &EUnary{"-", ps.parseUnary()}
	}
	return ps.parsePostfix()
}

func (ps *parser) parsePostfix() Expr {
	e := ps.parsePrimary()
	for {
		switch {
		case ps.isOp(".") && ps.toks[ps.p+1].kind == "ident":
			ps.next()
			e = &ESel{e, ps.next().text}
		case ps.isOp("."):
			// result.0 style tuple access
			if ps.toks[ps.p+1].kind == "int" {
				ps.next()
				e = &ESel{e, ps.next().text}
				continue
			}
			return e
		case ps.isOp("["):
			ps.next()
			var lo, hi Expr
			if !ps.isOp(":") {
				lo = ps.parseCond()
			}
			if ps.accept(":") {
				if !ps.isOp("]") {
					hi = ps.parseCond()
				}
				ps.expect("]")
				e = &ESlice{e, lo, hi}
			} else {
				ps.expect("]")
				e = &EIndex{e, lo}
			}
		case ps.isOp("("):
			ps.next()
			var args []Expr
			for !ps.isOp(")") {
				args = append(args, ps.parseImplies())
				if !ps.accept(",") {
					break
				}
			}
			ps.expect(")")
			e = &ECall{e, args}
		default:
			return e
		}
	}
}

func (ps *parser) parsePrimary() Expr {
	t := ps.next()
	switch t.kind {
	case "int":
		return &EInt{t.text}
	case "real":
		return &EReal{t.text}
	case "str":
		return &EStr{t.text}
	case "ident":
		switch t.text {
		case "true":
			return &EBool{true}
		case "false":
			return &EBool{false}
		case "nil":
			return &ENil{}
		case "old":
			ps.expect("(")
			x := ps.parseImplies()
			ps.expect(")")
			return &EOld{x}
		case "forall", "exists":
			ps.p--
			return ps.parseQuant()
		}
		return &EIdent{t.text}
	case "op":
		if t.text == "(" {
			e := ps.parseImplies()
			ps.expect(")")
			return e
		}
	}
	panic(fmt.Errorf("unexpected token %q at %d in %q", t.text, t.pos, ps.src))
}

// ---------------------------------------------------------------------------
// File parser. Input: the text of all //@ lines of a file (prefix stripped),
// one logical entry per line; continuation lines are lines whose first word is
// not a keyword.

var declKeywords = map[string]bool{"ghost": true, "pure": true, "pred": true, "rec": true, "func": true, "axiom": true, "lemma": true,
	"package": true, "import": true, "abstract": true, "iface": true, "functype": true, "fieldfunc": true, "guarded": true, "immutable": true, "opaque": true}
var clauseKeywords = map[string]bool{"requires": true, "ensures": true, "check": true, "modifies": true, "ghost_entry": true,
	"ghost_exit": true, "loop": true, "call": true, "mode": true, "allocates": true, "tags": true, "ghostparams": true, "only": true, "callees": true, "implements": true, "panics": true, "thread": true, "readonly": true}

type rawLine struct {
	text string
	line int
}

func firstWord(s string) string {
	s = strings.TrimSpace(s)
	for i, r := range s {
		if !(unicode.IsLetter(r) || r == '_') {
			return s[:i]
		}
	}
	return s
}

func parseSpecFile(path, pkgPath string, lines []rawLine) (sf *SpecFile, err error) {
	sf = &SpecFile{Pkg: pkgPath, Path: path, Imports: map[string]string{}}
	// join continuation lines
	var entries []rawLine
	for _, l := range lines {
		t := strings.TrimSpace(l.text)
		if t == "" {
			continue
		}
		if strings.HasPrefix(t, "//") || strings.HasPrefix(t, "#") {
			continue
		}
		w := firstWord(t)
		if declKeywords[w] || clauseKeywords[w] {
			entries = append(entries, rawLine{t, l.line})
		} else {
			if len(entries) == 0 {
				return nil, fmt.Errorf("%s:%d: continuation line without an entry: %s", path, l.line, t)
			}
			entries[len(entries)-1].text += " " + t
		}
	}
	var cur *FuncContract
	fail := func(l rawLine, f string, a ...interface{}) error {
		return fmt.Errorf("%s:%d: %s", path, l.line, fmt.Sprintf(f, a...))
	}
	defer func() {
		if r := recover(); r != nil {
			if er, ok := r.(error); ok {
				err = fmt.Errorf("%s: %v", path, er)
				return
			}
			panic(r)
		}
	}()
	for _, en := range entries {
		w := firstWord(en.text)
		rest := strings.TrimSpace(en.text[len(w):])
		switch w {
		case "package":
			sf.Pkg = rest
			cur = nil
		case "import":
			parts := strings.Fields(rest)
			if len(parts) != 2 {
				return nil, fail(en, "import alias path")
			}
			sf.Imports[parts[0]] = strings.Trim(parts[1], "\"")
		case "ghost":
			// ghost field T.f type
			parts := strings.Fields(rest)
			if len(parts) < 3 || parts[0] != "field" {
				return nil, fail(en, "expected: ghost field Type.name type")
			}
			tf := strings.SplitN(parts[1], ".", 2)
			if len(tf) != 2 {
				return nil, fail(en, "expected Type.field")
			}
			sf.Ghosts = append(sf.Ghosts, GhostFieldDecl{sf.Pkg, tf[0], tf[1], parts[2]})
			cur = nil
		case "opaque":
			// opaque f, pkg.g, (*T).m  - short names as printed in reports
			for _, n := range strings.Split(rest, ",") {
				if n = strings.TrimSpace(n); n != "" {
					sf.Opaque = append(sf.Opaque, n)
				}
			}
			cur = nil
		case "guarded", "immutable":
			// guarded [global] T.f by m  |  immutable [global] T.f   (lock discipline, C16)
			parts := strings.Fields(rest)
			gd := GuardDecl{Pkg: sf.Pkg, Kind: w}
			if len(parts) > 0 && parts[0] == "global" {
				gd.Global = true
				parts = parts[1:]
			}
			if len(parts) < 1 {
				return nil, fail(en, "%s [global] T.f [by m]", w)
			}
			gd.Target = parts[0]
			if w == "guarded" {
				if len(parts) != 3 || parts[1] != "by" {
					return nil, fail(en, "guarded [global] T.f by mutexField")
				}
				gd.Mutex = parts[2]
			}
			sf.Guards = append(sf.Guards, gd)
			cur = nil
		case "axiom":
			i := strings.Index(rest, ":=")
			if i < 0 {
				return nil, fail(en, "axiom name := expr")
			}
			e, err := parseExpr(rest[i+2:])
			if err != nil {
				return nil, fail(en, "%v", err)
			}
			sf.Axioms = append(sf.Axioms, AxiomDecl{sf.Pkg, strings.TrimSpace(rest[:i]), e, rest})
			cur = nil
		case "lemma":
			i := strings.Index(rest, ":=")
			if i < 0 {
				return nil, fail(en, "lemma [tags] name := expr")
			}
			tags, name := parseTags(rest[:i])
			e, err := parseExpr(rest[i+2:])
			if err != nil {
				return nil, fail(en, "%v", err)
			}
			sf.Lemmas = append(sf.Lemmas, LemmaDecl{sf.Pkg, strings.TrimSpace(name), tags, e, strings.TrimSpace(rest[i+2:])})
			cur = nil
		case "pure", "pred", "abstract", "rec":
			f, err := parseSpecFuncDecl(w, rest, sf.Pkg)
			if err != nil {
				return nil, fail(en, "%v", err)
			}
			f.File, f.Line = path, en.line
			sf.Funcs = append(sf.Funcs, f)
			cur = nil
		case "func", "iface", "functype", "fieldfunc":
			fc, err := parseFuncHeader(w, rest, sf.Pkg)
			if err != nil {
				return nil, fail(en, "%v", err)
			}
			fc.File, fc.Line = path, en.line
			sf.Contrs = append(sf.Contrs, fc)
			cur = fc
		default:
			if cur == nil {
				return nil, fail(en, "clause %q outside a func", w)
			}
			if err := parseClause(cur, w, rest, en, path); err != nil {
				return nil, fail(en, "%v", err)
			}
		}
	}
	return sf, nil
}

func parseTags(rest string) ([]string, string) {
	rest = strings.TrimSpace(rest)
	if strings.HasPrefix(rest, "[") {
		if i := strings.Index(rest, "]"); i > 0 {
			inner := rest[1:i]
			ok := true
			for _, r := range inner {
				if !(unicode.IsLetter(r) || unicode.IsDigit(r) || r == ',' || r == ' ' || r == '_') {
					ok = false
				}
			}
			if ok {
				var tags []string
				for _, t := range strings.Split(inner, ",") {
					if t = strings.TrimSpace(t); t != "" {
						tags = append(tags, t)
					}
				}
				return tags, strings.TrimSpace(rest[i+1:])
			}
		}
	}
	return nil, rest
}

func parseClause(fc *FuncContract, w, rest string, en rawLine, path string) error {
	switch w {
	case "tags":
		tags, _ := parseTags("[" + rest + "]")
		fc.Tags = append(fc.Tags, tags...)
	case "readonly":
		tags, body := parseTags(rest)
		for _, p := range strings.Split(body, ",") {
			if p = strings.TrimSpace(p); p != "" {
				fc.ReadOnly = append(fc.ReadOnly, OnlyClause{Tags: tags, Local: p})
			}
		}
	case "thread":
		if strings.TrimSpace(rest) != "any" {
			return fmt.Errorf("thread any")
		}
		fc.Thread = "any"
	case "panics":
		body := strings.TrimSpace(strings.TrimPrefix(strings.TrimSpace(rest), "if"))
		e, err := parseExpr(body)
		if err != nil {
			return err
		}
		fc.PanicsIf = &Clause{E: e, Text: body}
	case "implements":
		tags, body := parseTags(rest)
		parts := strings.Fields(body)
		if len(parts) == 1 {
			// a function type: no coupling invariant
			fc.Impl = &ImplClause{Tags: tags, Iface: parts[0]}
			break
		}
		if len(parts) != 3 || parts[1] != "inv" {
			return fmt.Errorf("implements [tags] pkg.Iface inv predName | implements [tags] pkg.FuncType")
		}
		fc.Impl = &ImplClause{Tags: tags, Iface: parts[0], Inv: parts[2]}
	case "callees":
		// callees [tags] a, b, c : besides effect-free helpers (log, fmt, errors, strings,
		// strconv, time.Now, pure path functions) the function may call only these
		tags, body := parseTags(rest)
		fc.CalleesTags = append(fc.CalleesTags, tags...)
		for _, p := range strings.Split(body, ",") {
			if p = strings.TrimSpace(p); p != "" {
				fc.Callees = append(fc.Callees, p)
			}
		}
	case "only":
		// only [tags] <local> in a#1, b#2
		tags, body := parseTags(rest)
		i := strings.Index(body, " in ")
		if i < 0 {
			return fmt.Errorf("only <local> in callee#k, ...")
		}
		oc := OnlyClause{Local: strings.TrimSpace(body[:i]), Tags: tags, Text: body}
		for _, p := range strings.Split(body[i+4:], ",") {
			if p = strings.TrimSpace(p); p != "" {
				oc.Sites = append(oc.Sites, p)
			}
		}
		fc.Only = append(fc.Only, oc)
	case "ghostparams":
		fc.GhostParams = append(fc.GhostParams, strings.Fields(strings.ReplaceAll(rest, ",", " "))...)
	case "mode":
		fc.Mode = strings.TrimSpace(rest)
	case "allocates":
		fc.Allocates = true
	case "requires", "ensures", "check":
		tags, body := parseTags(rest)
		e, err := parseExpr(body)
		if err != nil {
			return err
		}
		cl := Clause{Tags: tags, E: e, Text: body, Line: en.line, File: path}
		switch w {
		case "requires":
			fc.Requires = append(fc.Requires, cl)
		case "ensures":
			fc.Ensures = append(fc.Ensures, cl)
		default:
			fc.Checks = append(fc.Checks, cl)
		}
	case "modifies":
		fc.ModifiesSet = true
		locs, err := parseModLocs(rest)
		if err != nil {
			return err
		}
		fc.Modifies = append(fc.Modifies, locs...)
	case "ghost_entry", "ghost_exit":
		for _, part := range splitTop(rest, ';') {
			part = strings.TrimSpace(part)
			if part == "" {
				continue
			}
			i := indexTopAssign(part)
			if i < 0 {
				return fmt.Errorf("ghost assignment needs '=': %s", part)
			}
			tgt, err := parseExpr(part[:i])
			if err != nil {
				return err
			}
			val, err := parseExpr(part[i+1:])
			if err != nil {
				return err
			}
			ga := GhostAssign{tgt, val, part}
			if w == "ghost_entry" {
				fc.GhostEntry = append(fc.GhostEntry, ga)
			} else {
				fc.GhostExit = append(fc.GhostExit, ga)
			}
		}
	case "loop":
		// loop N invariant [tags] expr | loop N modifies locs
		parts := strings.Fields(rest)
		if len(parts) < 3 {
			return fmt.Errorf("loop N invariant expr")
		}
		var n int
		if _, err := fmt.Sscanf(parts[0], "%d", &n); err != nil {
			return fmt.Errorf("loop ordinal: %v", err)
		}
		body := strings.TrimSpace(strings.TrimSpace(rest[len(parts[0]):])[len(parts[1]):])
		switch parts[1] {
		case "invariant":
			tags, b2 := parseTags(body)
			e, err := parseExpr(b2)
			if err != nil {
				return err
			}
			if fc.LoopInv == nil {
				fc.LoopInv = map[int][]Clause{}
			}
			fc.LoopInv[n] = append(fc.LoopInv[n], Clause{Tags: tags, E: e, Text: b2, Line: en.line, File: path})
		case "modifies":
			locs, err := parseModLocs(body)
			if err != nil {
				return err
			}
			if fc.LoopMod == nil {
				fc.LoopMod = map[int][]ModLoc{}
			}
			fc.LoopMod[n] = append(fc.LoopMod[n], locs...)
		default:
			return fmt.Errorf("loop N invariant|modifies")
		}
	case "call":
		// call callee#k ghost name = expr | call callee#k bind name
		parts := strings.Fields(rest)
		if len(parts) < 3 {
			return fmt.Errorf("call callee#k ghost name = expr | bind name")
		}
		ck := strings.SplitN(parts[0], "#", 2)
		cg := CallGhost{Callee: ck[0], Ordinal: 1, Kind: parts[1]}
		if len(ck) == 2 {
			fmt.Sscanf(ck[1], "%d", &cg.Ordinal)
		}
		switch parts[1] {
		case "given", "given_after":
			body := strings.TrimSpace(rest[strings.Index(rest, parts[1])+len(parts[1]):])
			e, err := parseExpr(body)
			if err != nil {
				return err
			}
			cg.Val, cg.Text = e, body
		case "assert":
			body := strings.TrimSpace(rest[strings.Index(rest, "assert")+6:])
			tags, b2 := parseTags(body)
			e, err := parseExpr(b2)
			if err != nil {
				return err
			}
			cg.Val, cg.Tags, cg.Text = e, tags, b2
		case "bind":
			cg.Name = parts[2]
		case "tally":
			// call f#k tally name if cond
			if len(parts) < 5 || parts[3] != "if" {
				return fmt.Errorf("call f#k tally name if cond")
			}
			cg.Name = parts[2]
			body := strings.TrimSpace(rest[strings.Index(rest, " if ")+4:])
			e, err := parseExpr(body)
			if err != nil {
				return err
			}
			cg.Val, cg.Text = e, body
		case "ghost":
			i := strings.Index(rest, "=")
			if i < 0 {
				return fmt.Errorf("call ... ghost name = expr")
			}
			cg.Name = parts[2]
			e, err := parseExpr(rest[i+1:])
			if err != nil {
				return err
			}
			cg.Val = e
		default:
			return fmt.Errorf("call kind must be ghost, bind, assert, tally, given or given_after")
		}
		fc.CallGhosts = append(fc.CallGhosts, cg)
	default:
		return fmt.Errorf("unknown clause %q", w)
	}
	return nil
}

func indexTopAssign(s string) int {
	depth := 0
	for i := 0; i < len(s); i++ {
		switch s[i] {
		case '(', '[':
			depth++
		case ')', ']':
			depth--
		case '=':
			if depth == 0 {
				if i+1 < len(s) && s[i+1] == '=' {
					i++
					continue
				}
				if i > 0 && (s[i-1] == '!' || s[i-1] == '<' || s[i-1] == '>' || s[i-1] == '=') {
					continue
				}
				return i
			}
		}
	}
	return -1
}

func splitTop(s string, sep byte) []string {
	var out []string
	depth := 0
	start := 0
	for i := 0; i < len(s); i++ {
		switch s[i] {
		case '(', '[':
			depth++
		case ')', ']':
			depth--
		default:
			if s[i] == sep && depth == 0 {
				out = append(out, s[start:i])
				start = i + 1
			}
		}
	}
	out = append(out, s[start:])
	return out
}

func parseModLocs(rest string) ([]ModLoc, error) {
	var out []ModLoc
	for _, part := range splitTop(rest, ',') {
		part = strings.TrimSpace(part)
		if part == "" || part == "nothing" {
			continue
		}
		ghost := false
		if strings.HasPrefix(part, "ghost ") {
			ghost = true
			part = strings.TrimSpace(part[6:])
		}
		_ = ghost
		if part == "fresh" {
			out = append(out, ModLoc{Kind: "fresh", Text: part})
			continue
		}
		if strings.HasPrefix(part, "any(") && strings.HasSuffix(part, ")") {
			out = append(out, ModLoc{Kind: "any", Name: strings.TrimSpace(part[4 : len(part)-1]), Text: part})
			continue
		}
		if strings.HasSuffix(part, ".*") {
			e, err := parseExpr(part[:len(part)-2])
			if err != nil {
				return nil, err
			}
			out = append(out, ModLoc{Kind: "all", X: e, Text: part})
			continue
		}
		e, err := parseExpr(part)
		if err != nil {
			return nil, err
		}
		switch x := e.(type) {
		case *ESel:
			out = append(out, ModLoc{Kind: "field", X: x.X, Name: x.Name, Text: part})
		case *ECall:
			if id, ok := x.Fun.(*EIdent); ok && len(x.Args) == 1 {
				switch id.Name {
				case "elems", "pix", "rows", "weights":
					out = append(out, ModLoc{Kind: id.Name, X: x.Args[0], Text: part})
					continue
				}
			}
			return nil, fmt.Errorf("bad modifies location %q", part)
		default:
			return nil, fmt.Errorf("bad modifies location %q", part)
		}
	}
	return out, nil
}

// parse "func (r *T) Name(a, b) (res)" header (after the keyword)
func parseFuncHeader(kind, rest, pkg string) (*FuncContract, error) {
	toks, err := lex(rest)
	if err != nil {
		return nil, err
	}
	ps := &parser{toks: toks, src: rest}
	fc := &FuncContract{Pkg: pkg, Kind: kind}
	var perr error
	func() {
		defer func() {
			if r := recover(); r != nil {
				if er, ok := r.(error); ok {
					perr = er
					return
				}
				panic(r)
			}
		}()
		if ps.accept("(") {
			fc.RecvName = ps.next().text
			star := ""
			if ps.accept("*") {
				star = "*"
			}
			fc.RecvType = star + ps.next().text
			ps.expect(")")
		}
		fc.Name = ps.next().text
		if ps.accept("(") {
			fc.HasParams = true
			for !ps.isOp(")") {
				fc.ParamNames = append(fc.ParamNames, ps.next().text)
				if !ps.accept(",") {
					break
				}
			}
			ps.expect(")")
		}
		if ps.accept("(") {
			for !ps.isOp(")") {
				fc.ResNames = append(fc.ResNames, ps.next().text)
				if !ps.accept(",") {
					break
				}
			}
			ps.expect(")")
		}
		if ps.isOp("[") {
			ps.next()
			for !ps.isOp("]") {
				fc.Tags = append(fc.Tags, ps.next().text)
				ps.accept(",")
			}
			ps.expect("]")
		}
		if ps.peek().kind != "eof" {
			panic(fmt.Errorf("trailing tokens in header %q", rest))
		}
	}()
	if perr != nil {
		return nil, perr
	}
	return fc, nil
}

// pure func (fl *FrameLoop) n() int := expr ; pred (..) name(..) := expr ; abstract func name(a int) int
func parseSpecFuncDecl(kind, rest, pkg string) (*SpecFunc, error) {
	sf := &SpecFunc{Pkg: pkg, IsPred: kind == "pred", Abstract: kind == "abstract", Rec: kind == "rec"}
	body := ""
	if i := strings.Index(rest, ":="); i >= 0 {
		body = rest[i+2:]
		rest = rest[:i]
	} else if !sf.Abstract {
		return nil, fmt.Errorf("spec function needs := body")
	}
	rest = strings.TrimSpace(rest)
	rest = strings.TrimPrefix(rest, "func ")
	toks, err := lex(rest)
	if err != nil {
		return nil, err
	}
	ps := &parser{toks: toks, src: rest}
	var perr error
	func() {
		defer func() {
			if r := recover(); r != nil {
				if er, ok := r.(error); ok {
					perr = er
					return
				}
				panic(r)
			}
		}()
		if ps.accept("(") {
			sf.RecvName = ps.next().text
			sf.RecvType = ps.parseTypeText()
			ps.expect(")")
		}
		sf.Name = ps.next().text
		ps.expect("(")
		for !ps.isOp(")") {
			n := ps.next().text
			t := ps.parseTypeText()
			sf.Params = append(sf.Params, SParam{n, t})
			if !ps.accept(",") {
				break
			}
		}
		ps.expect(")")
		if ps.peek().kind != "eof" {
			sf.Ret = ps.parseTypeText()
		} else {
			sf.Ret = "bool"
		}
	}()
	if perr != nil {
		return nil, perr
	}
	if body != "" {
		e, err := parseExpr(body)
		if err != nil {
			return nil, err
		}
		sf.Body = e
	}
	return sf, nil
}
