package main

// Calls: builtins, contract application (modular: only the callee's contract is
// visible), permissive havoc, returns.

import (
	"fmt"
	"go/types"
	"os"
	"sort"
	"strings"

	"golang.org/x/tools/go/ssa"
)

func (fe *FnExec) call(st *State, in ssa.Instruction, c *ssa.CallCommon) SVal {
	var args []SVal
	for _, a := range c.Args {
		args = append(args, fe.get(st, a))
	}
	var recv SVal
	if c.IsInvoke() || !isStaticCallee(c) {
		recv = fe.get(st, c.Value)
	}
	return fe.callWith(st, in, c, recv, args)
}

type calleeInfo struct {
	contract *FuncContract
	names    []string     // parameter names including receiver
	ptypes   []types.Type // parameter types including receiver
	results  *types.Tuple
	short    string
	desc     string
}

func (fe *FnExec) calleeInfo(c *ssa.CallCommon) calleeInfo {
	ci := calleeInfo{short: calleeShortName(c)}
	sig := c.Signature()
	ci.results = sig.Results()
	if c.IsInvoke() {
		it := c.Value.Type()
		key := "iface " + typeKey(it) + "." + c.Method.Name()
		ci.desc = key
		ci.contract = fe.P.Contracts[key]
		ci.names = []string{"recv"}
		ci.ptypes = []types.Type{it}
		msig := c.Method.Type().(*types.Signature)
		for i := 0; i < msig.Params().Len(); i++ {
			ci.names = append(ci.names, msig.Params().At(i).Name())
			ci.ptypes = append(ci.ptypes, msig.Params().At(i).Type())
		}
		if cc := ci.contract; cc != nil {
			if cc.RecvName != "" {
				ci.names[0] = cc.RecvName
			}
			for i, n := range cc.ParamNames {
				if i+1 < len(ci.names) {
					ci.names[i+1] = n
				}
			}
		}
		return ci
	}
	switch v := c.Value.(type) {
	case *ssa.Function:
		ci.desc = v.String()
		ci.contract = fe.P.Contracts[v.String()]
		for _, p := range v.Params {
			ci.names = append(ci.names, p.Name())
			ci.ptypes = append(ci.ptypes, p.Type())
		}
		if len(v.Params) == 0 {
			// external function without body: names from the signature
			if r := v.Signature.Recv(); r != nil {
				ci.names = append(ci.names, r.Name())
				ci.ptypes = append(ci.ptypes, r.Type())
			}
			for i := 0; i < v.Signature.Params().Len(); i++ {
				ci.names = append(ci.names, v.Signature.Params().At(i).Name())
				ci.ptypes = append(ci.ptypes, v.Signature.Params().At(i).Type())
			}
		}
		if cc := ci.contract; cc != nil {
			off := 0
			if v.Signature.Recv() != nil {
				off = 1
				if cc.RecvName != "" && len(ci.names) > 0 {
					ci.names[0] = cc.RecvName
				}
			}
			if cc.HasParams {
				for i, n := range cc.ParamNames {
					if off+i < len(ci.names) && n != "_" {
						ci.names[off+i] = n
					}
				}
			}
		}
		return ci
	}
	// function value
	vt := c.Value.Type()
	key := ""
	if _, ok := vt.(*types.Named); ok {
		key = "functype " + typeKey(vt)
	} else if u, ok := c.Value.(*ssa.UnOp); ok {
		if fa, ok := u.X.(*ssa.FieldAddr); ok {
			stt := fa.X.Type().Underlying().(*types.Pointer).Elem()
			key = "fieldfunc " + typeKey(stt) + "." + stt.Underlying().(*types.Struct).Field(fa.Field).Name()
		}
	}
	ci.desc = key
	if key != "" {
		ci.contract = fe.P.Contracts[key]
	}
	ci.names = []string{"fnval"}
	ci.ptypes = []types.Type{vt}
	for i := 0; i < sig.Params().Len(); i++ {
		n := sig.Params().At(i).Name()
		if n == "" {
			n = fmt.Sprintf("a%d", i)
		}
		ci.names = append(ci.names, n)
		ci.ptypes = append(ci.ptypes, sig.Params().At(i).Type())
	}
	if cc := ci.contract; cc != nil {
		for i, n := range cc.ParamNames {
			if i+1 < len(ci.names) {
				ci.names[i+1] = n
			}
		}
	}
	return ci
}

func (fe *FnExec) callWith(st *State, in ssa.Instruction, c *ssa.CallCommon, recv SVal, args []SVal) SVal {
	if b, ok := c.Value.(*ssa.Builtin); ok {
		return fe.builtin(st, in, b, c, args)
	}
	ci := fe.calleeInfo(c)
	all := args
	if recv != nil {
		all = append([]SVal{recv}, args...)
		if c.IsInvoke() {
			fe.safety(st, Neq(recv.(IfaceV).Typ, IntLit(0)), in, "nil-interface-call")
		} else if s, ok := recv.(Scalar); ok {
			fe.safety(st, Neq(s.T, IntLit(0)), in, "nil-func-call")
		}
	}
	if ci.contract == nil {
		if fe.Mode == "permissive" {
			return fe.havocCall(st, in, ci, all)
		}
		fe.fail("%s: call to %s has no contract (strict mode)", fe.pos(in.Pos()), ci.desc)
	}
	return fe.applyContract(st, in, ci, all)
}

// qualifiedCallee: "pkg.Func" for a package-level function of another package (so
// that a contract can tell log.Printf from a method that happens to be called Printf).
func qualifiedCallee(ci calleeInfo) string {
	d := shortFn(ci.desc)
	if d == "" || strings.HasPrefix(d, "(") || strings.HasPrefix(d, "iface ") || strings.HasPrefix(d, "functype ") || strings.HasPrefix(d, "fieldfunc ") {
		return ""
	}
	if i := strings.LastIndex(d, "/"); i >= 0 {
		d = d[i+1:]
	}
	if !strings.Contains(d, ".") || d == ci.short {
		return ""
	}
	return d
}

// localEnv: the caller-side environment including named locals.
func (fe *FnExec) localEnv(st *State, old *State) *Env {
	env := fe.env(st, old)
	// deterministic choice among shadowed names: earliest declaration
	type cand struct {
		a *ssa.Alloc
	}
	best := map[string]*ssa.Alloc{}
	for a := range st.locals {
		if a.Comment == "" || a.Parent() != fe.Fn {
			continue
		}
		if cur, ok := best[a.Comment]; !ok || a.Pos() < cur.Pos() {
			best[a.Comment] = a
		}
	}
	for n, a := range best {
		if _, isParam := env.vars[n]; isParam {
			continue
		}
		v := st.locals[a]
		if sc, ok := v.(Scalar); ok && len(sc.T.S) > 120 {
			// name a large local value once, so that contract clauses speak about the
			// same constant the code's own loads and stores were expressed with
			if st.localNames == nil {
				st.localNames = map[string]Term{}
			}
			nm, have := st.localNames[sc.T.S]
			if !have {
				nm = st.define("loc."+n, sc.T)
				st.localNames[sc.T.S] = nm
			}
			v = Scalar{nm}
		}
		env.vars[n] = Binding{v, a.Type().(*types.Pointer).Elem()}
	}
	fe.bindOrdinalLocals(st, env)
	return env
}

func (fe *FnExec) applyContract(st *State, in ssa.Instruction, ci calleeInfo, all []SVal) SVal {
	cc := ci.contract
	ord := fe.callOrd[in]
	site := fmt.Sprintf("call:%s#%d", ci.short, ord)
	vars := map[string]Binding{}
	if len(all) != len(ci.names) {
		fe.fail("%s: call to %s: %d arguments for %d parameters", fe.pos(in.Pos()), ci.desc, len(all), len(ci.names))
	}
	for i, n := range ci.names {
		vars[n] = Binding{all[i], ci.ptypes[i]}
		vars[fmt.Sprintf("$%d", i)] = Binding{all[i], ci.ptypes[i]}
	}
	// call-site ghost arguments and assertions of the caller's contract
	for i, cg := range fe.C.CallGhosts {
		if cg.Callee != ci.short || cg.Ordinal != ord || cg.Kind != "ghost" {
			continue
		}
		fe.usedGhosts[i] = true
		lenv := fe.localEnv(st, fe.entry)
		v, t, err := lenv.eval(cg.Val)
		if err != nil {
			fe.fail("call %s#%d ghost %s: %v", cg.Callee, cg.Ordinal, cg.Name, err)
		}
		vars[cg.Name] = Binding{v, t}
	}
	for _, gp := range cc.GhostParams {
		if _, ok := vars[gp]; !ok {
			vars[gp] = Binding{Scalar{st.freshConst("ghost."+gp, SInt)}, tInt}
		}
	}
	fe.callSiteAsserts(st, in, ci, ord, site, vars, cc.GhostParams)
	fe.applyGiven(st, ci, ord, "given", vars)
	pre := st.snapshot()
	env := &Env{fe: fe, st: st, old: pre, vars: vars, pkg: cc.Pkg, qn: &fe.qn}
	for i, cl := range cc.Requires {
		t, err := env.evalBool(cl.E)
		if err != nil {
			fe.fail("%s: requires#%d of %s (%s): %v", fe.pos(in.Pos()), i+1, ci.desc, cl.Text, err)
		}
		tags := cl.Tags
		if len(tags) == 0 {
			tags = []string{"support"}
		}
		fe.assert(st, t, fmt.Sprintf("%s/requires#%d", site, i+1), "requires", tags, cl.Text, in.Pos())
	}
	// effects
	var ents []modEntry
	for _, ml := range cc.Modifies {
		es, err := fe.evalModLoc(env, ml)
		if err != nil {
			fe.fail("%s: modifies of %s (%s): %v", fe.pos(in.Pos()), ci.desc, ml.Text, err)
		}
		ents = append(ents, es...)
	}
	checked := map[string]bool{}
	for _, m := range ents {
		if fe.Mode == "permissive" {
			break
		}
		ck := m.text + "|" + m.ref.S + "|" + m.key
		if m.kind == "loc" {
			ck = m.text + "|" + m.ref.S
		}
		if checked[ck] {
			continue
		}
		checked[ck] = true
		if strings.HasPrefix(m.key, "sync.Mutex.held") {
			// the lock state is balanced by every function that takes a lock (its
			// contract says held == old(held)); it is not part of the callers' frames
			continue
		}
		var g Term
		switch m.kind {
		case "loc":
			g = fe.allowedWrite(st, m.key, m.ref)
		case "pix":
			alts := []Term{Ge(birth(m.ref), fe.entryNow)}
			for _, mm := range fe.modset {
				if mm.kind == "pix" {
					alts = append(alts, Eq(mm.ref, m.ref))
				}
				if mm.kind == "key" && mm.key == m.key {
					alts = append(alts, TTrue)
				}
			}
			g = Or(alts...)
		case "key":
			g = TFalse
			for _, mm := range fe.modset {
				if mm.kind == "key" && mm.key == m.key {
					g = TTrue
				}
			}
		}
		fe.assert(st, g, fmt.Sprintf("%s/frame:%s", site, m.text), "frame", []string{"support"}, "callee may modify "+m.text+" - must be allowed by the caller's modifies", in.Pos())
	}
	fe.havocEntries(st, ents, site)
	if cc.Allocates {
		n := st.freshConst("now", SInt)
		st.assume(Ge(n, st.now), "allocation clock is monotone")
		st.now = n
	}
	// results
	var res SVal
	switch ci.results.Len() {
	case 0:
	case 1:
		v, err := st.freshValue("r."+ci.short, ci.results.At(0).Type())
		if err != nil {
			fe.fail("%s: result of %s: %v", fe.pos(in.Pos()), ci.desc, err)
		}
		res = v
		vars["result"] = Binding{v, ci.results.At(0).Type()}
	default:
		v, err := st.freshValue("r."+ci.short, ci.results)
		if err != nil {
			fe.fail("%s: result of %s: %v", fe.pos(in.Pos()), ci.desc, err)
		}
		res = v
		vars["result"] = Binding{v, ci.results}
	}
	if res != nil {
		for i := 0; i < ci.results.Len(); i++ {
			var comp SVal = res
			if tv, ok := res.(TupleV); ok {
				comp = tv.E[i]
			}
			name := ci.results.At(i).Name()
			if i < len(cc.ResNames) {
				name = cc.ResNames[i]
			}
			if name != "" && name != "_" {
				vars[name] = Binding{comp, ci.results.At(i).Type()}
			}
			vars[fmt.Sprintf("result%d", i)] = Binding{comp, ci.results.At(i).Type()}
		}
	}
	post := &Env{fe: fe, st: st, old: pre, vars: vars, pkg: cc.Pkg, qn: &fe.qn}
	for i, cl := range cc.Ensures {
		if fe.asyncCall {
			// a goroutine has merely been started: its postcondition says nothing yet
			break
		}
		if internalClause(cl.Text) {
			// speaks about the callee's own call trace: checked there, not visible here
			continue
		}
		t, err := post.evalBool(cl.E)
		if err != nil {
			fe.fail("%s: ensures#%d of %s (%s): %v", fe.pos(in.Pos()), i+1, ci.desc, cl.Text, err)
		}
		st.assume(t, fmt.Sprintf("ensures of %s: %s", ci.short, cl.Text))
	}
	st.countCall(ci.short)
	if q := qualifiedCallee(ci); q != "" {
		st.countCall(q)
	}
	{
		st.callSeq++
		rec := callRec{pre: pre, seq: st.callSeq, args: all, argT: ci.ptypes, res: res}
		if res != nil {
			if ci.results.Len() == 1 {
				rec.resT = ci.results.At(0).Type()
			} else {
				rec.resT = ci.results
			}
		}
		st.callLog[fmt.Sprintf("%s#%d", ci.short, st.callCnt[ci.short])] = rec
		st.callLog[fmt.Sprintf("%s@%d", ci.short, ord)] = rec
	}
	if res != nil {
		vars["$result"] = vars["result"]
	}
	fe.applyGiven(st, ci, ord, "given_after", vars)
	fe.applyTallies(st, ci.short, ord, vars)
	for i, cg := range fe.C.CallGhosts {
		if cg.Callee == ci.short && cg.Ordinal == ord && cg.Kind == "bind" {
			fe.usedGhosts[i] = true
		}
		if cg.Callee == ci.short && cg.Ordinal == ord && cg.Kind == "bind" && res != nil {
			if ci.results.Len() == 1 {
				st.binds[cg.Name] = Binding{res, ci.results.At(0).Type()}
			} else {
				st.binds[cg.Name] = Binding{res, ci.results}
			}
		}
	}
	return res
}

// callSiteAsserts: assertions of the caller's contract attached to a call site (in
// the caller's vocabulary, plus $i for the arguments and ghost arguments by name).
func (fe *FnExec) callSiteAsserts(st *State, in ssa.Instruction, ci calleeInfo, ord int, site string, vars map[string]Binding, ghostParams []string) {
	nAssert := 0
	for i, cg := range fe.C.CallGhosts {
		if cg.Callee != ci.short || cg.Ordinal != ord || cg.Kind != "assert" {
			continue
		}
		nAssert++
		fe.usedGhosts[i] = true
		lenv := fe.localEnv(st, fe.entry)
		for k, v := range vars {
			if strings.HasPrefix(k, "$") {
				lenv.vars[k] = v
			}
		}
		for _, gp := range ghostParams {
			lenv.vars[gp] = vars[gp]
		}
		t, err := lenv.evalBool(cg.Val)
		if err != nil {
			fe.fail("call %s#%d assert (%s): %v", cg.Callee, cg.Ordinal, cg.Text, err)
		}
		tags := cg.Tags
		if len(tags) == 0 {
			tags = []string{"support"}
		}
		fe.assert(st, t, fmt.Sprintf("%s/assert#%d", site, nAssert), "requires", tags, cg.Text, in.Pos())
	}
}

// applyGiven: input-validity assumptions stated by the caller's contract at a call
// site ("call f#k given e"). They are assumptions, listed as such in the evidence.
func (fe *FnExec) applyGiven(st *State, ci calleeInfo, ord int, kind string, vars map[string]Binding) {
	for i, cg := range fe.C.CallGhosts {
		if cg.Callee != ci.short || cg.Ordinal != ord || cg.Kind != kind {
			continue
		}
		fe.usedGhosts[i] = true
		lenv := fe.localEnv(st, fe.entry)
		for k, v := range vars {
			if strings.HasPrefix(k, "$") {
				lenv.vars[k] = v
			}
		}
		t, err := lenv.evalBool(cg.Val)
		if err != nil {
			fe.fail("call %s#%d %s (%s): %v", cg.Callee, cg.Ordinal, kind, cg.Text, err)
		}
		if os.Getenv("GOVC_DEBUG") != "" {
			fmt.Fprintf(os.Stderr, "GIVEN %s -> %s\n", cg.Text, truncate(t.S, 300))
		}
		st.assume(t, "GIVEN (assumed input validity): "+cg.Text)
		fe.noteAbstracted("assumed at " + shortFn(fe.Fn.String()) + " call " + cg.Callee + ": " + cg.Text)
	}
}

// havocEntries forgets exactly the listed locations.
func (fe *FnExec) havocEntries(st *State, ents []modEntry, why string) {
	done := map[string]bool{}
	for _, m := range ents {
		switch m.kind {
		case "loc":
			k := m.key + "|" + m.ref.S
			if done[k] {
				continue
			}
			done[k] = true
			arr := st.heapArr(m.key, m.sort)
			v := st.freshConst("hv."+m.key, arr.Sort.Elem)
			st.setHeap(m.key, Store(arr, m.ref, v))
			// type invariants of the havoc'ed component
			if strings.HasSuffix(m.key, ".len") || strings.HasSuffix(m.key, ".off") || strings.HasSuffix(m.key, ".cap") {
				st.assume(Ge(v, IntLit(0)), "")
			}
		case "key":
			if done["key|"+m.key] {
				continue
			}
			done["key|"+m.key] = true
			arr := st.heapArr(m.key, m.sort)
			st.heap[m.key] = st.freshConst("Hany."+m.key, arr.Sort)
		case "pix":
			k := "pix|" + m.ref.S
			if done[k] {
				continue
			}
			done[k] = true
			arr := st.heapArr(m.key, SArray(SInt, SArray(SInt, SInt)))
			n := st.freshConst("Hpix", arr.Sort)
			x := Term{"a!frame", SInt}
			st.assume(Forall([]BoundVar{{"a!frame", SInt}},
				Implies(Neq(App(SInt, "owner", x), m.ref), Eq(Select(n, x), Select(arr, x))), []Term{Select(n, x)}), "frame of "+why+": only pixels of the listed frame change")
			st.assume(Forall([]BoundVar{{"a!frame", SInt}, {"i!frame", SInt}},
				And(Ge(Select(Select(n, x), Term{"i!frame", SInt}), IntLit(0)), Lt(Select(Select(n, x), Term{"i!frame", SInt}), IntLit(65536))),
				[]Term{Select(Select(n, x), Term{"i!frame", SInt})}), "uint16 range of pixels")
			st.heap[m.key] = n
		}
	}
}

// havocCall: permissive treatment of an un-contracted call (assumption A5).
func (fe *FnExec) havocCall(st *State, in ssa.Instruction, ci calleeInfo, all []SVal) SVal {
	hv := map[string]Binding{}
	for i := range all {
		hv[fmt.Sprintf("$%d", i)] = Binding{all[i], ci.ptypes[i]}
	}
	fe.callSiteAsserts(st, in, ci, fe.callOrd[in], fmt.Sprintf("call:%s#%d", ci.short, fe.callOrd[in]), hv, nil)
	fe.applyGiven(st, ci, fe.callOrd[in], "given", hv)
	preCall := st.snapshot()
	for i, a := range all {
		fe.havocReachable(st, a, ci.ptypes[i])
	}
	n := st.freshConst("now", SInt)
	st.assume(Ge(n, st.now), "allocation clock is monotone")
	st.now = n
	fe.noteAbstracted(ci.desc)
	st.bumpMaps()
	for _, a := range st.escaped {
		if _, ok := st.locals[a]; ok {
			if v, err := st.freshValue("esc."+a.Comment, a.Type().(*types.Pointer).Elem()); err == nil {
				st.locals[a] = v
			}
		}
	}
	var res SVal
	var resT types.Type
	switch ci.results.Len() {
	case 0:
	case 1:
		v, err := st.freshValue("hr."+ci.short, ci.results.At(0).Type())
		if err != nil {
			fe.fail("%s: result of %s: %v", fe.pos(in.Pos()), ci.desc, err)
		}
		res, resT = v, ci.results.At(0).Type()
	default:
		v, err := st.freshValue("hr."+ci.short, ci.results)
		if err != nil {
			fe.fail("%s: result of %s: %v", fe.pos(in.Pos()), ci.desc, err)
		}
		res, resT = v, ci.results
	}
	if res != nil {
		hv["$result"] = Binding{res, resT}
	}
	fe.applyGiven(st, ci, fe.callOrd[in], "given_after", hv)
	st.countCall(ci.short)
	if q := qualifiedCallee(ci); q != "" {
		st.countCall(q)
	}
	st.callSeq++
	st.callLog[fmt.Sprintf("%s#%d", ci.short, st.callCnt[ci.short])] = callRec{pre: preCall, seq: st.callSeq, args: all, argT: ci.ptypes, res: res, resT: resT}
	st.callLog[fmt.Sprintf("%s@%d", ci.short, fe.callOrd[in])] = st.callLog[fmt.Sprintf("%s#%d", ci.short, st.callCnt[ci.short])]
	{
		tv := map[string]Binding{}
		for k, v := range hv {
			tv[k] = v
		}
		if res != nil {
			tv["$result"] = Binding{res, resT}
		}
		fe.applyTallies(st, ci.short, fe.callOrd[in], tv)
	}
	for i, cg := range fe.C.CallGhosts {
		if cg.Callee == ci.short && cg.Ordinal == fe.callOrd[in] && cg.Kind == "bind" {
			fe.usedGhosts[i] = true
			if res != nil {
				st.binds[cg.Name] = Binding{res, resT}
			}
		}
	}
	return res
}

func (fe *FnExec) noteAbstracted(desc string) {
	for _, d := range fe.abstracted {
		if d == desc {
			return
		}
	}
	fe.abstracted = append(fe.abstracted, desc)
}

func (fe *FnExec) havocReachable(st *State, v SVal, t types.Type) {
	switch x := v.(type) {
	case Scalar:
		if pt, ok := t.Underlying().(*types.Pointer); ok && isStructByValue(pt.Elem()) {
			var ents []modEntry
			s := pt.Elem().Underlying().(*types.Struct)
			owner := typeKey(pt.Elem())
			for i := 0; i < s.NumFields(); i++ {
				fe.addModField(st, &ents, x.T, owner, s.Field(i).Name(), s.Field(i).Type(), "havoc")
			}
			fe.havocEntries(st, ents, "un-contracted call")
		}
	case IfaceV:
		// a pointer boxed into an interface on this path: its pointee is reachable too
		if bt, ok := st.boxed[x.Ref.S]; ok {
			fe.havocReachable(st, Scalar{x.Ref}, bt)
		}
	case SliceV:
		if sl, ok := t.Underlying().(*types.Slice); ok && !isStructByValue(sl.Elem()) {
			if cs, err := compsOf(sl.Elem()); err == nil {
				// interface elements (varargs) may carry boxed pointers
				if _, isIface := sl.Elem().Underlying().(*types.Interface); isIface {
					for ref, bt := range st.boxed {
						_ = ref
						_ = bt
					}
				}
				for _, c := range cs {
					key := elemKey(sl.Elem()) + c.suffix
					h := st.heapArr(key, SArray(SInt, SArray(SInt, c.sort)))
					nv := st.freshConst("hv."+key, SArray(SInt, c.sort))
					st.setHeap(key, Store(h, x.Arr, nv))
				}
			}
		}
	}
}

// calleeEffectKeys: which heap arrays may a call inside a loop change?
func (fe *FnExec) calleeEffectKeys(st *State, in ssa.CallInstruction) (bool, map[string]*Sort) {
	c := in.Common()
	keys := map[string]*Sort{}
	if b, ok := c.Value.(*ssa.Builtin); ok {
		switch b.Name() {
		case "copy":
			if sl, ok := c.Args[0].Type().Underlying().(*types.Slice); ok {
				if cs, err := compsOf(sl.Elem()); err == nil {
					for _, cp := range cs {
						keys[elemKey(sl.Elem())+cp.suffix] = SArray(SInt, SArray(SInt, cp.sort))
					}
				}
			}
		case "append":
			return true, keys
		}
		return false, keys
	}
	ci := fe.calleeInfo(c)
	if ci.contract == nil {
		if fe.Mode == "permissive" {
			for _, t := range ci.ptypes {
				if pt, ok := t.Underlying().(*types.Pointer); ok && isStructByValue(pt.Elem()) {
					fe.keysOfStruct(pt.Elem(), keys)
				}
				if sl, ok := t.Underlying().(*types.Slice); ok && !isStructByValue(sl.Elem()) {
					if cs, err := compsOf(sl.Elem()); err == nil {
						for _, cp := range cs {
							keys[elemKey(sl.Elem())+cp.suffix] = SArray(SInt, SArray(SInt, cp.sort))
						}
					}
				}
			}
			return true, keys
		}
		return false, keys
	}
	// evaluate the modifies clause on dummy arguments in a scratch state to learn the keys
	scratch := st.clone()
	vars := map[string]Binding{}
	for i, n := range ci.names {
		v, err := scratch.freshValue("dummy", ci.ptypes[i])
		if err != nil {
			continue
		}
		vars[n] = Binding{v, ci.ptypes[i]}
	}
	env := &Env{fe: fe, st: scratch, old: scratch, vars: vars, pkg: ci.contract.Pkg, qn: &fe.qn}
	func() {
		defer func() {
			if r := recover(); r != nil {
				if _, ok := r.(execError); !ok {
					panic(r)
				}
			}
		}()
		for _, ml := range ci.contract.Modifies {
			es, err := fe.evalModLoc(env, ml)
			if err != nil {
				continue
			}
			for _, m := range es {
				switch m.kind {
				case "loc", "key":
					keys[m.key] = m.sort
				case "pix":
					keys[m.key] = SArray(SInt, SArray(SInt, SInt))
				}
			}
		}
	}()
	return ci.contract.Allocates, keys
}

// ---------------------------------------------------------------------------
// builtins

func (fe *FnExec) builtin(st *State, in ssa.Instruction, b *ssa.Builtin, c *ssa.CallCommon, args []SVal) SVal {
	switch b.Name() {
	case "len", "cap":
		switch v := args[0].(type) {
		case SliceV:
			if b.Name() == "len" {
				return Scalar{v.Len}
			}
			return Scalar{v.Cap}
		case Scalar:
			if v.T.Sort == SStr {
				return Scalar{App(SInt, "strlen", v.T)}
			}
		}
		if fe.Mode == "permissive" {
			n := st.freshConst("len", SInt)
			st.assume(Ge(n, IntLit(0)), "")
			return Scalar{n}
		}
		fe.fail("%s: len of %T unsupported", fe.pos(in.Pos()), args[0])
	case "copy":
		dst, ok1 := args[0].(SliceV)
		src, ok2 := args[1].(SliceV)
		if !ok1 || !ok2 {
			if fe.Mode == "permissive" {
				if ok1 {
					fe.havocReachable(st, dst, c.Args[0].Type())
				}
				n := st.freshConst("copied", SInt)
				st.assume(Ge(n, IntLit(0)), "")
				return Scalar{n}
			}
			fe.fail("%s: copy with non-slice operands unsupported", fe.pos(in.Pos()))
		}
		et := c.Args[0].Type().Underlying().(*types.Slice).Elem()
		n := st.define("ncopy", Min(dst.Len, src.Len))
		cs, err := compsOf(et)
		if err != nil || isStructByValue(et) {
			fe.fail("%s: copy of %s unsupported", fe.pos(in.Pos()), et)
		}
		fe.assert(st, Or(Le(n, IntLit(0)), fe.allowedWrite(st, elemKey(et)+cs[0].suffix, dst.Arr)),
			fmt.Sprintf("frame/copy@%s", fe.siteName(in)), "frame", []string{"support"}, "copy destination allowed by modifies", in.Pos())
		for _, cp := range cs {
			key := elemKey(et) + cp.suffix
			h := st.heapArr(key, SArray(SInt, SArray(SInt, cp.sort)))
			na := st.freshConst("cp."+key, SArray(SInt, cp.sort))
			i := Term{"i!cp", SInt}
			inRange := And(Ge(i, dst.Off), Lt(i, Add(dst.Off, n)))
			srcv := Select(Select(h, src.Arr), Add(src.Off, Sub(i, dst.Off)))
			st.assume(Forall([]BoundVar{{"i!cp", SInt}}, Eq(Select(na, i), Ite(inRange, srcv, Select(Select(h, dst.Arr), i))), []Term{Select(na, i)}),
				"copy semantics")
			st.setHeap(key, Store(h, dst.Arr, na))
		}
		return Scalar{n}
	case "append":
		if r := fe.appendScalars(st, in, c, args); r != nil {
			return r
		}
		if fe.Mode == "permissive" {
			v, err := st.freshValue("append", c.Args[0].Type())
			if err != nil {
				fe.fail("%s: %v", fe.pos(in.Pos()), err)
			}
			n := st.freshConst("now", SInt)
			st.assume(Ge(n, st.now), "")
			st.now = n
			return v
		}
		fe.fail("%s: append is outside the strict subset", fe.pos(in.Pos()))
	case "ssa:wrapnilchk":
		if s, ok := args[0].(Scalar); ok {
			fe.safety(st, Neq(s.T, IntLit(0)), in, "nil-deref")
		}
		return args[0]
	case "ssa:deferstack":
		return Scalar{IntLit(0)}
	case "print", "println":
		return nil
	case "recover":
		return IfaceV{IntLit(0), IntLit(0)}
	case "close":
		if fe.Mode == "permissive" {
			fe.pseudoCall(st, in, "close", args, []types.Type{c.Args[0].Type()}, nil, nil)
			return nil
		}
	case "delete":
		if fe.Mode == "permissive" {
			return nil
		}
	case "min", "max":
		a := args[0].(Scalar).T
		for _, x := range args[1:] {
			if b.Name() == "min" {
				a = Min(a, x.(Scalar).T)
			} else {
				a = Max(a, x.(Scalar).T)
			}
		}
		return Scalar{a}
	}
	fe.fail("%s: builtin %s unsupported", fe.pos(in.Pos()), b.Name())
	return nil
}

// appendScalars: append(s, vs...) for element types with one scalar component.
// The result is s's array when the capacity suffices and a fresh array otherwise;
// either way it holds s's elements followed by vs's.
func (fe *FnExec) appendScalars(st *State, in ssa.Instruction, c *ssa.CallCommon, args []SVal) SVal {
	if len(args) != 2 {
		return nil
	}
	s, ok1 := args[0].(SliceV)
	v, ok2 := args[1].(SliceV)
	stt, ok3 := c.Args[0].Type().Underlying().(*types.Slice)
	if !ok1 || !ok2 || !ok3 || isStructByValue(stt.Elem()) {
		return nil
	}
	cs, err := compsOf(stt.Elem())
	if err != nil || len(cs) != 1 {
		return nil
	}
	if fe.Mode != "permissive" {
		return nil
	}
	key := elemKey(stt.Elem()) + cs[0].suffix
	h := st.heapArr(key, SArray(SInt, SArray(SInt, cs[0].sort)))
	newLen := st.define("app.len", Add(s.Len, v.Len))
	fits := st.define("app.fits", Le(newLen, s.Cap))
	fresh := st.newRef("app.arr")
	arr := st.define("app.arr", Ite(fits, s.Arr, fresh))
	off := st.define("app.off", Ite(fits, s.Off, IntLit(0)))
	capv := st.freshConst("app.cap", SInt)
	st.assume(And(Ge(capv, newLen), Implies(fits, Eq(capv, s.Cap))), "capacity of the appended slice")
	na := st.freshConst("app."+key, SArray(SInt, cs[0].sort))
	i := Term{"i!ap", SInt}
	rel := Sub(i, off)
	val := Ite(And(Ge(rel, IntLit(0)), Lt(rel, s.Len)), Select(Select(h, s.Arr), Add(s.Off, rel)),
		Ite(And(Ge(rel, s.Len), Lt(rel, newLen)), Select(Select(h, v.Arr), Add(v.Off, Sub(rel, s.Len))),
			Select(Select(h, arr), i)))
	st.assume(Forall([]BoundVar{{"i!ap", SInt}}, Eq(Select(na, i), val), []Term{Select(na, i)}), "append semantics")
	st.setHeap(key, Store(h, arr, na))
	return SliceV{arr, off, newLen, capv}
}

// ---------------------------------------------------------------------------
// return

func (fe *FnExec) doReturn(st *State, x *ssa.Return) {
	if len(st.defers) > 0 {
		fe.fail("%s: return with pending defers (only straight-line defer stacks are supported)", fe.pos(x.Pos()))
	}
	env := fe.env(st, fe.entry)
	res := fe.Fn.Signature.Results()
	var vals []SVal
	for _, r := range x.Results {
		vals = append(vals, fe.get(st, r))
	}
	switch len(vals) {
	case 0:
	case 1:
		env.vars["result"] = Binding{vals[0], res.At(0).Type()}
	default:
		env.vars["result"] = Binding{TupleV{vals}, res}
	}
	for i, v := range vals {
		if fe.resNames[i] != "" && fe.resNames[i] != "_" {
			env.vars[fe.resNames[i]] = Binding{v, res.At(i).Type()}
		}
		env.vars[fmt.Sprintf("result%d", i)] = Binding{v, res.At(i).Type()}
	}
	extra := map[string]Binding{}
	for k, v := range env.vars {
		extra[k] = v
	}
	for _, ga := range fe.C.GhostExit {
		fe.ghostAssign(st, fe.entry, ga, extra)
	}
	fe.retPaths++
	fe.cover(st, "return", "a return is reachable")
	// each postcondition is checked on its own: a failed clause must not be assumed
	// for the clauses after it (it would hide their failures)
	fe.noAssume = true
	defer func() { fe.noAssume = false }()
	if fe.C.Impl != nil {
		fe.refineEnsures(st, vals, x.Pos())
	}
	for i, cl := range fe.C.Ensures {
		t, err := env.evalBool(cl.E)
		if err != nil {
			fe.fail("ensures#%d (%s): %v", i+1, cl.Text, err)
		}
		tags := cl.Tags
		if len(tags) == 0 {
			tags = []string{"support"}
		}
		fe.assert(st, t, fmt.Sprintf("ensures#%d", i+1), "ensures", tags, cl.Text, x.Pos())
	}
	if len(fe.C.Checks) > 0 {
		lenv := fe.localEnv(st, fe.entry)
		for k, v := range env.vars {
			if _, ok := lenv.vars[k]; !ok || strings.HasPrefix(k, "result") {
				lenv.vars[k] = v
			}
		}
		for i, cl := range fe.C.Checks {
			t, err := lenv.evalBool(cl.E)
			if err != nil {
				fe.fail("check#%d (%s): %v", i+1, cl.Text, err)
			}
			tags := cl.Tags
			if len(tags) == 0 {
				tags = []string{"support"}
			}
			fe.assert(st, t, fmt.Sprintf("check#%d", i+1), "ensures", tags, cl.Text, x.Pos())
		}
	}
}

func internalClause(text string) bool {
	return strings.Contains(text, "ncalls(") || strings.Contains(text, "callarg(") || strings.Contains(text, "callres(") || strings.Contains(text, "happened(") || strings.Contains(text, "callseq(") || strings.Contains(text, "atcall(") || strings.Contains(text, "sitearg(") || strings.Contains(text, "siteres(") || strings.Contains(text, "sitehappened(")
}

var _ = sort.Strings
