#!/bin/bash
# Behaviour-preserving edits (selftest/benign/<PROP>-<name>.patch): the property's
# check must stay silent on each. usage: selftest/benign.sh [pattern]
export GOFLAGS=-mod=mod GOPROXY=off GOSUMDB=off GOTOOLCHAIN=local
HERE="$(cd "$(dirname "$0")/.." && pwd)"
fail=0; n=0
for p in "$HERE"/selftest/benign/*.patch; do
  b=$(basename "$p" .patch); prop=${b%%-*}
  case "$b" in *"${1:-}"*) ;; *) continue;; esac
  scratch=$(mktemp -d /tmp/benign-XXXXXX); out=$(mktemp -d /tmp/benign-out-XXXXXX)
  rsync -a --exclude .git /repo/ "$scratch/"
  (cd "$scratch" && patch -p1 -s < "$p") || { echo "BENIGN-ERROR $b: patch does not apply"; fail=1; rm -rf "$scratch" "$out"; continue; }
  res=$(VERIF_REPO="$scratch" VERIF_OUT_DIR="$out" "$HERE/check" "$prop" --tier quick 2>&1)
  if echo "$res" | grep -q "^VIOLATION"; then echo "ALARM    $b"; echo "$res" | grep -m2 "^  obligation"; fail=1; else echo "silent   $b"; fi
  rm -rf "$scratch" "$out"; n=$((n+1))
done
echo "benign: $n edits, fail=$fail"; exit $fail
