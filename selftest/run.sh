#!/bin/bash
# Must-fail corpus: every patch in selftest/mutants/<PROP>-<name>.patch (and every
# seeded change in seeded/<id>/patch.diff with meta.json naming the property) is
# applied to a scratch copy of /repo (outside /repo and /verif, removed afterwards)
# and the property's check must report a VIOLATION there.
# usage: selftest/run.sh [pattern]   exit 0 iff every mutant is reported
#        SELFTEST_JOBS=n runs n mutants at a time (default 3)
HERE="$(cd "$(dirname "$0")/.." && pwd)"
PAT="${1:-}"
list=$(mktemp /tmp/selftest-list-XXXXXX)
for p in "$HERE"/selftest/mutants/*.patch; do
  [ -e "$p" ] || continue
  b=$(basename "$p" .patch); prop=${b%%-*}
  case "$b" in *"$PAT"*) printf '%s\t%s\t%s\n' "$p" "$prop" "$b" >> "$list";; esac
done
for d in "$HERE"/seeded/*/; do
  [ -e "$d/patch.diff" ] || continue
  prop=$(python3 -c "import json,sys; print(json.load(open('$d/meta.json'))['property'])" 2>/dev/null) || continue
  b="seeded/$(basename "$d")"
  case "$b" in *"$PAT"*) printf '%s\t%s\t%s\n' "$d/patch.diff" "$prop" "$b" >> "$list";; esac
done
n=$(wc -l < "$list")
out=$(mktemp /tmp/selftest-res-XXXXXX)
tr '\t' '\n' < "$list" | xargs -d '\n' -n 3 -P "${SELFTEST_JOBS:-3}" "$HERE/selftest/one.sh" > "$out" 2>&1
cat "$out"
fail=0
grep -q "^MISSED\|^SELFTEST-ERROR" "$out" && fail=1
[ "$(grep -c '^caught' "$out")" -eq "$n" ] || fail=1
rm -f "$list" "$out"
echo "selftest: $n mutants, fail=$fail"
exit $fail
