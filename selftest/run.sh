#!/bin/bash
# Must-fail corpus: every patch in selftest/mutants/<PROP>-<name>.patch (and every
# seeded change in seeded/<id>/patch.diff with meta.json naming the property) is
# applied to a scratch copy of /repo (outside /repo and /verif, removed afterwards)
# and the property's check must report a VIOLATION there.
# usage: selftest/run.sh [pattern]   exit 0 iff every mutant is reported
export GOFLAGS=-mod=mod GOPROXY=off GOSUMDB=off GOTOOLCHAIN=local
HERE="$(cd "$(dirname "$0")/.." && pwd)"
PAT="${1:-}"
fail=0; n=0
run_one() { # patch prop label
  local patch="$1" prop="$2" label="$3"
  local scratch out
  scratch=$(mktemp -d /tmp/selftest-XXXXXX); out=$(mktemp -d /tmp/selftest-out-XXXXXX)
  rsync -a --exclude .git /repo/ "$scratch/"
  if ! (cd "$scratch" && patch -p1 -s < "$patch"); then echo "SELFTEST-ERROR $label: patch does not apply"; fail=1; rm -rf "$scratch" "$out"; return; fi
  if ! (cd "$scratch" && go build ./... >/dev/null 2>&1); then echo "SELFTEST-ERROR $label: mutant does not build"; fail=1; rm -rf "$scratch" "$out"; return; fi
  res=$(VERIF_REPO="$scratch" VERIF_OUT_DIR="$out" "$HERE/check" "$prop" --tier quick 2>&1)
  if echo "$res" | grep -q "^VIOLATION property=$prop"; then
     echo "caught   $label  ($(echo "$res" | grep -m1 '^  obligation' | cut -c1-140))"
  else
     echo "MISSED   $label"; echo "$res" | tail -3; fail=1
  fi
  rm -rf "$scratch" "$out"
  n=$((n+1))
}
for p in "$HERE"/selftest/mutants/*.patch; do
  [ -e "$p" ] || continue
  b=$(basename "$p" .patch); prop=${b%%-*}
  case "$b" in *"$PAT"*) run_one "$p" "$prop" "$b";; esac
done
for d in "$HERE"/seeded/*/; do
  [ -e "$d/patch.diff" ] || continue
  prop=$(python3 -c "import json,sys; print(json.load(open('$d/meta.json'))['property'])" 2>/dev/null) || continue
  b="seeded/$(basename "$d")"
  case "$b" in *"$PAT"*) run_one "$d/patch.diff" "$prop" "$b";; esac
done
echo "selftest: $n mutants, fail=$fail"
exit $fail
