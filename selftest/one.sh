#!/bin/bash
# one.sh <patch> <prop> <label>: apply one patch to a scratch copy of /repo, run the
# property's quick check there, print "caught ..."/"MISSED ..."; exit 1 when missed.
export GOFLAGS=-mod=mod GOPROXY=off GOSUMDB=off GOTOOLCHAIN=local
HERE="$(cd "$(dirname "$0")/.." && pwd)"
patch="$1"; prop="$2"; label="$3"
scratch=$(mktemp -d /tmp/selftest-XXXXXX); out=$(mktemp -d /tmp/selftest-out-XXXXXX)
trap 'rm -rf "$scratch" "$out"' EXIT
rsync -a --exclude .git /repo/ "$scratch/"
if ! (cd "$scratch" && patch -p1 -s < "$patch"); then echo "SELFTEST-ERROR $label: patch does not apply"; exit 1; fi
if ! (cd "$scratch" && go build ./... >/dev/null 2>&1); then echo "SELFTEST-ERROR $label: mutant does not build"; exit 1; fi
res=$(VERIF_REPO="$scratch" VERIF_OUT_DIR="$out" "$HERE/check" "$prop" --tier quick 2>&1)
if echo "$res" | grep -q "^VIOLATION property=$prop"; then
   if echo "$res" | grep "^VIOLATION property=$prop" | grep -qv "no-failing-input-found"; then how="failing-input-replayed"; else how="no-failing-input-found"; fi
   echo "caught   $label  [$how] ($(echo "$res" | grep -m1 '^  obligation' | cut -c1-140))"
   exit 0
fi
echo "MISSED   $label"; echo "$res" | tail -3
exit 1
