package main

// Replay driver for the configuration plumbing (C11 "the settings read from config.toml
// are the ones that shape the files", and through it C02 C03 C04 C05 C07 C15): random
// config.toml files in a directory that is NOT the default one are read with the real
// ParseConfig + LoadMotionConfig, and every setting a property depends on must come
// back as written - including the boundary values 0 and 1, a fixed threshold next to
// non-zero dynamic bounds, and a stop-recording time different from power-off.

import (
	"fmt"
	"strings"
	"math/rand"
	"os"
	"path/filepath"
	"testing"
	"time"
)

func TestReplayConfig(t *testing.T) {
	rng := rand.New(rand.NewSource(1))
	pick := func(vs ...int) int { return vs[rng.Intn(len(vs))] }
	for iter := 0; iter < 60; iter++ {
		dir, err := os.MkdirTemp("", "cfg-replay-")
		if err != nil {
			t.Fatal(err)
		}
		minSecs := pick(0, 1, 3, 10)
		maxSecs := minSecs + pick(0, 1, 20, 600)
		preview := pick(0, 1, 3, 5)
		minDisk := pick(0, 1, 200)
		constant := rng.Intn(2) == 0
		activate := rng.Intn(2) == 0
		bucket := pick(1, 10, 45, 600)
		refill := pick(1, 20, 600, 1800)
		dyn := rng.Intn(2) == 0
		thresh := pick(0, 2800, 3000)
		tmin := pick(0, 2500, 2900, 3100)
		tmax := pick(0, 2600, 2950, 3500)
		delta := pick(0, 1, 50, 65535)
		count := pick(0, 1, 3)
		gap := pick(0, 1, 45)
		oneDiff := rng.Intn(2) == 0
		trig := pick(1, 2, 4)
		warmer := rng.Intn(2) == 0
		edge := pick(0, 1, 2)
		lat, long := []float64{0, -43.5, 12.25}[rng.Intn(3)], []float64{0, 172.6, -8.5}[rng.Intn(3)]
		noLocation := iter%3 == 2 // a file without a location section: the recorder's location stays unset
		out := filepath.Join(dir, "out")
		toml := fmt.Sprintf(`[device]
id = %d
name = "cfg-replay"

[location]
latitude = %v
longitude = %v
altitude = 12.0
accuracy = 3.0

[windows]
start-recording = "10:00"
stop-recording = "14:00"
power-on = "09:00"
power-off = "18:00"

[thermal-recorder]
output-dir = %q
min-disk-space-mb = %d
min-secs = %d
max-secs = %d
preview-secs = %d
constant-recorder = %v

[thermal-throttler]
activate = %v
bucket-size = "%ds"
min-refill = "%ds"

[thermal-motion]
dynamic-threshold = %v
temp-thresh = %d
temp-thresh-min = %d
temp-thresh-max = %d
delta-thresh = %d
count-thresh = %d
frame-compare-gap = %d
use-one-diff-only = %v
trigger-frames = %d
warmer-only = %v
edge-pixels = %d
`, 7+iter, lat, long, out, minDisk, minSecs, maxSecs, preview, constant, activate, bucket, refill, dyn, thresh, tmin, tmax, delta, count, gap, oneDiff, trig, warmer, edge)
		wantAlt := float32(12)
		if noLocation {
			i := strings.Index(toml, "[location]")
			j := strings.Index(toml, "[windows]")
			toml = toml[:i] + toml[j:]
			lat, long, wantAlt = 0, 0, 0
		}
		if err := os.WriteFile(filepath.Join(dir, "config.toml"), []byte(toml), 0644); err != nil {
			t.Fatal(err)
		}
		fail := func(what string, got, want interface{}) {
			fmt.Printf("REPLAY-VIOLATION C11 config.toml setting %s: read back %v, file says %v; config:%s\n", what, got, want, compactTOML(toml))
			os.RemoveAll(dir)
			t.Fatal("violation reproduced on the real code")
		}
		conf, err := ParseConfig(dir)
		if err != nil {
			fail("(ParseConfig rejects a valid file)", err, "no error")
		}
		if err := conf.LoadMotionConfig("lepton3.5"); err != nil {
			fail("(LoadMotionConfig rejects a valid file)", err, "no error")
		}
		chk := func(what string, got, want interface{}) {
			if fmt.Sprint(got) != fmt.Sprint(want) {
				fail(what, got, want)
			}
		}
		chk("device.id", conf.DeviceID, 7+iter)
		chk("device.name", conf.DeviceName, "cfg-replay")
		chk("thermal-recorder.output-dir", conf.OutputDir, out)
		chk("thermal-recorder.min-disk-space-mb", conf.MinDiskSpace, minDisk)
		chk("thermal-recorder.min-secs", conf.Recorder.MinSecs, minSecs)
		chk("thermal-recorder.max-secs", conf.Recorder.MaxSecs, maxSecs)
		chk("thermal-recorder.preview-secs", conf.Recorder.PreviewSecs, preview)
		chk("thermal-recorder.constant-recorder", conf.Recorder.ConstantRecorder, constant)
		chk("thermal-throttler.activate", conf.Throttler.Activate, activate)
		chk("thermal-throttler.bucket-size", conf.Throttler.BucketSize, time.Duration(bucket)*time.Second)
		chk("thermal-throttler.min-refill", conf.Throttler.MinRefill, time.Duration(refill)*time.Second)
		chk("location.latitude", conf.Location.Latitude, float32(lat))
		chk("location.longitude", conf.Location.Longitude, float32(long))
		chk("location.altitude", conf.Location.Altitude, wantAlt)
		m := conf.Motion
		chk("thermal-motion.dynamic-threshold", m.DynamicThreshold, dyn)
		chk("thermal-motion.temp-thresh", m.TempThresh, thresh)
		chk("thermal-motion.temp-thresh-min", m.TempThreshMin, tmin)
		chk("thermal-motion.temp-thresh-max", m.TempThreshMax, tmax)
		chk("thermal-motion.delta-thresh", m.DeltaThresh, delta)
		chk("thermal-motion.count-thresh", m.CountThresh, count)
		chk("thermal-motion.frame-compare-gap", m.FrameCompareGap, gap)
		chk("thermal-motion.use-one-diff-only", m.UseOneDiffOnly, oneDiff)
		chk("thermal-motion.trigger-frames", m.TriggerFrames, trig)
		chk("thermal-motion.warmer-only", m.WarmerOnly, warmer)
		chk("thermal-motion.edge-pixels", m.EdgePixels, edge)
		// the recording window is the recording window, not the power window
		w := conf.Recorder.Window
		day := time.Date(2026, 6, 1, 0, 0, 0, 0, time.Local)
		for _, c := range []struct {
			h    int
			want bool
		}{{9, false}, {11, true}, {13, true}, {15, false}, {17, false}, {19, false}} {
			at := day.Add(time.Duration(c.h)*time.Hour + 30*time.Minute)
			w.Now = func() time.Time { return at }
			if w.Active() != c.want {
				fail(fmt.Sprintf("windows.start/stop-recording (active at %02d:30)", c.h), w.Active(), c.want)
			}
		}
		os.RemoveAll(dir)
	}
}

func compactTOML(s string) string {
	out := ""
	for _, r := range s {
		if r == '\n' {
			out += " | "
		} else {
			out += string(r)
		}
	}
	if len(out) > 900 {
		out = out[:900] + "..."
	}
	return out
}
