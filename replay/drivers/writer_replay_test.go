package main

// Replay driver for thermal-writer (C18, and the thermal-writer side of C14): the
// real handleConn + writer goroutine run against a socket pair and a temporary
// output directory; the CPTR file is parsed back and compared with what was sent.
// The monitor is written from the property statement: every frame once, in order,
// byte for byte, well-formed sections, everything flushed when the connection ends.

import (
	"bytes"
	"encoding/binary"
	"fmt"
	"io"
	"math/rand"
	"net"
	"os"
	"path/filepath"
	"testing"
	"time"
)

type wrFrame struct {
	fields map[byte][]byte
	data   []byte
}

// parseCPTR returns the header fields and the frame sections of a CPTR file; err
// describes the first place where the file is not well-formed.
func parseCPTR(b []byte) (map[byte][]byte, []wrFrame, error) {
	if len(b) < 7 || string(b[:4]) != "CPTR" {
		return nil, nil, fmt.Errorf("bad magic (file of %d bytes)", len(b))
	}
	if b[4] != 2 {
		return nil, nil, fmt.Errorf("version %d", b[4])
	}
	if b[5] != 'H' {
		return nil, nil, fmt.Errorf("first section is %q, not 'H'", b[5])
	}
	p := 6
	readFields := func() (map[byte][]byte, error) {
		if p >= len(b) {
			return nil, fmt.Errorf("truncated before field count at %d", p)
		}
		n := int(b[p])
		p++
		out := map[byte][]byte{}
		for i := 0; i < n; i++ {
			if p+2 > len(b) {
				return nil, fmt.Errorf("truncated field header at %d", p)
			}
			l, code := int(b[p]), b[p+1]
			p += 2
			if p+l > len(b) {
				return nil, fmt.Errorf("truncated field %q at %d", code, p)
			}
			out[code] = b[p : p+l]
			p += l
		}
		return out, nil
	}
	hdr, err := readFields()
	if err != nil {
		return nil, nil, err
	}
	var frames []wrFrame
	for p < len(b) {
		if b[p] != 'F' {
			return hdr, frames, fmt.Errorf("section %q at %d, expected 'F'", b[p], p)
		}
		p++
		f, err := readFields()
		if err != nil {
			return hdr, frames, err
		}
		sz, ok := f['f']
		if !ok || len(sz) != 4 {
			return hdr, frames, fmt.Errorf("frame %d has no 4-byte length field", len(frames))
		}
		n := int(binary.LittleEndian.Uint32(sz))
		if p+n > len(b) {
			return hdr, frames, fmt.Errorf("frame %d truncated: %d bytes announced, %d left", len(frames), n, len(b)-p)
		}
		frames = append(frames, wrFrame{f, b[p : p+n]})
		p += n
	}
	return hdr, frames, nil
}

func wrHeader(resX, resY, fps, size int) []byte {
	return []byte(fmt.Sprintf("ResX: %d\nResY: %d\nFPS: %d\nFrameSize: %d\nModel: lepton3.5\nBrand: flir\nFirmware: 1.2.3\nCameraSerial: 4711\n\n", resX, resY, fps, size))
}

func wrRun(t *testing.T, rng *rand.Rand, nFrames, size int, mode string) {
	dir, err := os.MkdirTemp("", "wr-replay-")
	if err != nil {
		t.Fatal(err)
	}
	defer os.RemoveAll(dir)
	conf := &Config{DeviceID: 7, DeviceName: "replay", OutputDir: dir}
	client, server := net.Pipe()
	var sent [][]byte
	stream := wrHeader(8, size/16+1, 9, size)
	for k := 0; k < nFrames; k++ {
		f := make([]byte, size)
		rng.Read(f)
		binary.LittleEndian.PutUint32(f, uint32(k))
		sent = append(sent, f)
		stream = append(stream, f...)
	}
	fail := func(msg string) {
		fmt.Printf("REPLAY-VIOLATION C18 %s; frames=%d size=%d delivery=%s\n", msg, nFrames, size, mode)
		t.Fatal("violation reproduced on the real code")
	}
	go func() {
		defer client.Close()
		rest := stream
		for len(rest) > 0 {
			n := len(rest)
			switch mode {
			case "bytes":
				n = 1 + rng.Intn(3)
			case "chunks":
				n = 1 + rng.Intn(2*size)
			case "whole":
			}
			if n > len(rest) {
				n = len(rest)
			}
			if _, err := client.Write(rest[:n]); err != nil {
				return
			}
			rest = rest[n:]
		}
	}()
	done := make(chan error, 1)
	go func() { done <- handleConn(server, conf, false) }()
	select {
	case err := <-done:
		if err == nil {
			fail("handleConn returned nil after the connection ended")
		}
	case <-time.After(20 * time.Second):
		fail("handleConn did not return after the connection ended")
	}
	// the writer goroutine drains the queue and closes the file on its own: wait for
	// the file to hold everything, or give up after a generous delay
	want := 0
	for _, f := range sent {
		want += len(f)
	}
	var data []byte
	deadline := time.Now().Add(10 * time.Second)
	for {
		files, _ := filepath.Glob(filepath.Join(dir, "*.cptr"))
		data = data[:0]
		for _, fn := range files {
			b, _ := os.ReadFile(fn)
			data = append(data, b...)
		}
		if len(files) == 1 && len(data) >= want+7 {
			time.Sleep(50 * time.Millisecond)
			b, _ := os.ReadFile(files[0])
			if len(b) == len(data) {
				break
			}
		}
		if time.Now().After(deadline) {
			break
		}
		time.Sleep(20 * time.Millisecond)
	}
	hdr, frames, err := parseCPTR(data)
	if err != nil {
		fail("file is not a well-formed CPTR file: " + err.Error())
	}
	if string(hdr['E']) != "lepton3.5" || string(hdr['B']) != "flir" || len(hdr['X']) != 4 || binary.LittleEndian.Uint32(hdr['X']) != 8 ||
		len(hdr['Z']) != 1 || hdr['Z'][0] != 9 || string(hdr['D']) != "replay" || len(hdr['I']) != 4 || binary.LittleEndian.Uint32(hdr['I']) != 7 {
		fail(fmt.Sprintf("header fields wrong: model %q brand %q device %q", hdr['E'], hdr['B'], hdr['D']))
	}
	if len(frames) != nFrames {
		fail(fmt.Sprintf("%d frames sent, %d stored after the connection ended", nFrames, len(frames)))
	}
	for k := range frames {
		if !bytes.Equal(frames[k].data, sent[k]) {
			pos := -1
			if len(frames[k].data) >= 4 {
				pos = int(binary.LittleEndian.Uint32(frames[k].data))
			}
			fail(fmt.Sprintf("stored frame %d differs from sent frame %d (it carries sequence number %d)", k, k, pos))
		}
	}
}

func TestReplayWriter(t *testing.T) {
	frameLogIntervalFirstMin, frameLogInterval = 15, 60*5
	rng := rand.New(rand.NewSource(1))
	for _, mode := range []string{"whole", "chunks", "bytes"} {
		for _, n := range []int{0, 1, 3, 300, 700} {
			size := 16 + rng.Intn(200)
			if mode == "bytes" && n > 3 {
				n = 40
			}
			frameLogIntervalFirstMin, frameLogInterval = 15, 60*5
			wrRun(t, rng, n, size, mode)
		}
	}
}

var _ = io.EOF
