package main

// Replay driver for the frame socket end to end (C14, C11): the real handleConn is
// fed a header and frames over a socket pair, delivered in random pieces and with
// 'clear' markers between frames; a test recording requested before the first frame
// must then hold exactly the first 21 frames that were sent, pixel for pixel, with
// the header fields the camera announced. A header cut short must end the
// connection with an error, not a hang.

import (
	"encoding/binary"
	"fmt"
	"math/rand"
	"net"
	"os"
	"path/filepath"
	"testing"
	"time"

	cptv "github.com/TheCacophonyProject/go-cptv"
)

const (
	crResX, crResY, crFPS = 32, 24, 9
	crFrameSize           = crResX * crResY * 2
)

func crFrame(n int) []byte {
	raw := make([]byte, crFrameSize)
	i := 0
	for y := 0; y < crResY; y++ {
		for x := 0; x < crResX; x++ {
			v := uint16(0x4000) + uint16(((y*crResX+x)%0x3e00)|0x0101)
			if y == 0 && x < 2 {
				v = uint16(0x5101 + n)
			}
			binary.LittleEndian.PutUint16(raw[i:], v)
			i += 2
		}
	}
	return raw
}

func crConfig(t *testing.T) (*Config, string, string) {
	dir, err := os.MkdirTemp("", "conn-replay-")
	if err != nil {
		t.Fatal(err)
	}
	outDir := filepath.Join(dir, "out")
	if err := os.Mkdir(outDir, 0755); err != nil {
		t.Fatal(err)
	}
	toml := fmt.Sprintf("[device]\nid = 77\nname = \"replay\"\n\n[thermal-recorder]\noutput-dir = %q\nmin-disk-space-mb = 0\n\n[thermal-throttler]\nactivate = false\n\n[windows]\nstart-recording = \"12:00\"\nstop-recording = \"12:00\"\n", outDir)
	if err := os.WriteFile(filepath.Join(dir, "config.toml"), []byte(toml), 0644); err != nil {
		t.Fatal(err)
	}
	conf, err := ParseConfig(dir)
	if err != nil {
		t.Fatal(err)
	}
	return conf, dir, outDir
}

func crRun(t *testing.T, rng *rand.Rand, mode string, clears map[int]bool) {
	conf, dir, outDir := crConfig(t)
	defer os.RemoveAll(dir)
	processor = nil
	fail := func(msg string) {
		fmt.Printf("REPLAY-VIOLATION C14 %s; delivery=%s clear-before-frames=%v\n", msg, mode, clears)
		t.Fatal("violation reproduced on the real code")
	}
	server, client := net.Pipe()
	done := make(chan error, 1)
	go func() {
		defer func() {
			if r := recover(); r != nil {
				done <- fmt.Errorf("handleConn panicked: %v", r)
			}
		}()
		done <- handleConn(server, conf)
	}()
	send := func(b []byte) {
		for len(b) > 0 {
			n := len(b)
			switch mode {
			case "bytes":
				n = 1 + rng.Intn(4)
			case "chunks":
				n = 1 + rng.Intn(2*crFrameSize)
			}
			if n > len(b) {
				n = len(b)
			}
			client.SetWriteDeadline(time.Now().Add(20 * time.Second))
			if _, err := client.Write(b[:n]); err != nil {
				fail("the recorder stopped reading the frame socket: " + err.Error())
			}
			b = b[n:]
		}
	}
	header := fmt.Sprintf("ResX: %d\nResY: %d\nFrameSize: %d\nModel: boson\nBrand: flir\nFPS: %d\nFirmware: \"1.2.3\"\nCameraSerial: 4242\n\n", crResX, crResY, crFrameSize, crFPS)
	// header and first frame in one piece: nothing beyond the blank line may be lost
	const nFrames = 30
	sent := make([][]byte, nFrames)
	for n := range sent {
		sent[n] = crFrame(n)
	}
	first := append([]byte(header), sent[0][:7]...)
	// ask for the test recording as soon as the processor exists; frames are held back until then
	go func() {
		deadline := time.Now().Add(20 * time.Second)
		for newSnapshotRecording() != nil && time.Now().Before(deadline) {
			time.Sleep(2 * time.Millisecond)
		}
	}()
	send(first[:len(header)])
	deadline := time.Now().Add(20 * time.Second)
	for processor == nil || !processor.StartSnapshot {
		if time.Now().After(deadline) {
			fail("motion processor never came up after a complete header")
		}
		time.Sleep(2 * time.Millisecond)
	}
	// everything else is one byte stream; where it is cut into writes is up to the mode
	rest := append([]byte{}, first[len(header):]...)
	rest = append(rest, sent[0][7:]...)
	for n := 1; n < nFrames; n++ {
		if clears[n] {
			rest = append(rest, []byte("clear")...)
		}
		rest = append(rest, sent[n]...)
	}
	send(rest)
	client.Close()
	select {
	case err := <-done:
		if err == nil {
			fail("handleConn returned nil after the connection closed")
		}
		if s := err.Error(); len(s) > 8 && s[:9] == "handleCon" {
			fail(s)
		}
	case <-time.After(20 * time.Second):
		fail("handleConn did not return after the connection closed")
	}
	files, _ := filepath.Glob(filepath.Join(outDir, "*.cptv"))
	if len(files) != 1 {
		all, _ := filepath.Glob(filepath.Join(outDir, "*"))
		fail(fmt.Sprintf("expected one finished test recording, found %d (%v)", len(files), all))
	}
	f, err := os.Open(files[0])
	if err != nil {
		t.Fatal(err)
	}
	defer f.Close()
	r, err := cptv.NewReader(f)
	if err != nil {
		fail("finished recording does not decode: " + err.Error())
	}
	if r.ResX() != crResX || r.ResY() != crResY || r.BrandName() != "flir" || r.ModelName() != "boson" || r.DeviceName() != "replay" || r.FPS() != crFPS {
		fmt.Printf("REPLAY-VIOLATION C11 header of the finished file: %dx%d@%d %q %q %q\n", r.ResX(), r.ResY(), r.FPS(), r.BrandName(), r.ModelName(), r.DeviceName())
		t.Fatal("violation reproduced on the real code")
	}
	got := 0
	for {
		fr := r.EmptyFrame()
		if err := r.ReadFrame(fr); err != nil {
			break
		}
		if fr.Status.BackgroundFrame {
			continue
		}
		if got >= 21 {
			fail("test recording holds more than 21 frames")
		}
		for y := 0; y < crResY; y++ {
			for x := 0; x < crResX; x++ {
				w := binary.LittleEndian.Uint16(sent[got][(y*crResX+x)*2:])
				if fr.Pix[y][x] != w {
					fail(fmt.Sprintf("recorded frame %d differs from frame %d sent on the socket at (x=%d,y=%d): got %#04x want %#04x (frame marker %#04x)", got, got, x, y, fr.Pix[y][x], w, fr.Pix[0][0]))
				}
			}
		}
		got++
	}
	if got != 21 {
		fail(fmt.Sprintf("test recording holds %d frames, not 21", got))
	}
}

func TestReplayConn(t *testing.T) {
	rng := rand.New(rand.NewSource(1))
	for _, mode := range []string{"whole", "chunks", "bytes"} {
		crRun(t, rng, mode, nil)
		crRun(t, rng, mode, map[int]bool{3: true, 4: true, 17: true})
	}
	// a header cut short by the connection closing: an error, not a hang
	conf, dir, _ := crConfig(t)
	defer os.RemoveAll(dir)
	server, client := net.Pipe()
	done := make(chan error, 1)
	go func() { done <- handleConn(server, conf) }()
	client.Write([]byte("ResX: 32\nResY: 24\nFrameSi"))
	client.Close()
	select {
	case err := <-done:
		if err == nil {
			fmt.Printf("REPLAY-VIOLATION C14 a header cut short was accepted\n")
			t.Fatal("violation reproduced on the real code")
		}
	case <-time.After(10 * time.Second):
		fmt.Printf("REPLAY-VIOLATION C14 a header cut short makes handleConn hang\n")
		t.Fatal("violation reproduced on the real code")
	}
}
