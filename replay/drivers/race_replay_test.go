package motion

// Replay driver for C16 (run with the race detector): snapshot requests against the
// frame loop on the real FrameLoop / MotionProcessor, for rings of two and more slots.
// Monitors, from the property statement: every snapshot is a whole frame (all pixels
// carry the same frame's value - the frames are filled uniformly), it is a copy (its
// storage is not the ring's), and the race detector stays silent. The configurations
// and accesses recorded as known findings (one-slot ring, CurrentFrame, StartSnapshot)
// are deliberately not exercised here; findings/run.sh demonstrates those.

import (
	"fmt"
	"runtime"
	"sync"
	"testing"

	"github.com/TheCacophonyProject/go-cptv/cptvframe"
)

func rrFill(f *cptvframe.Frame, v uint16) {
	for y := range f.Pix {
		for x := range f.Pix[y] {
			f.Pix[y][x] = v
		}
	}
}

func TestReplayRace(t *testing.T) {
	camera := new(TestCamera)
	for _, size := range []int{2, 3, 11} {
		fl := NewFrameLoop(size, camera)
		var wg sync.WaitGroup
		stop := make(chan struct{})
		started := make(chan struct{})
		var bad string
		wg.Add(1)
		go func() {
			defer wg.Done()
			first := true
			for {
				select {
				case <-stop:
					return
				default:
				}
				c := fl.CopyRecent()
				v := c.Pix[0][0]
				for y := range c.Pix {
					for x := range c.Pix[y] {
						if c.Pix[y][x] != v && bad == "" {
							bad = fmt.Sprintf("snapshot mixes two frames: pixel (0,0)=%d, pixel (%d,%d)=%d; ring of %d slots", v, x, y, c.Pix[y][x], size)
						}
					}
				}
				for i := range fl.frames {
					if c == fl.frames[i] && bad == "" {
						bad = fmt.Sprintf("snapshot is the ring's own frame object (slot %d), not a copy", i)
					}
				}
				if first {
					close(started)
					first = false
				}
			}
		}()
		<-started
		for i := 0; i < 400; i++ {
			rrFill(fl.Current(), uint16(1000+i)) // what the frame parser does: fill the current slot
			fl.Move()
			if i%97 == 0 {
				fl.Reset() // camera reset
			}
			runtime.Gosched()
		}
		close(stop)
		wg.Wait()
		if bad != "" {
			fmt.Printf("REPLAY-VIOLATION C16 %s\n", bad)
			t.Fatal("violation reproduced on the real code")
		}
	}
}
