package loglimiter

// Replay driver for the log limiter (C20): exhaustive sequences of (message, clock
// step) against a model written from the statement, with an injected clock and
// captured log output.

import (
	"bytes"
	"fmt"
	"log"
	"strings"
	"testing"
	"time"
)

func TestReplayLimiter(t *testing.T) {
	msgs := []string{"a", "b"}
	steps := []time.Duration{0, 30 * time.Second, 59*time.Second + 999*time.Millisecond, time.Minute, 61 * time.Second}
	type ev struct {
		m int
		d int
	}
	var buf bytes.Buffer
	log.SetOutput(&buf)
	log.SetFlags(0)
	defer log.SetOutput(nil)
	for depth := 1; depth <= 4; depth++ {
		seq := make([]ev, depth)
		var rec func(i int) bool
		rec = func(i int) bool {
			if i < depth {
				for m := range msgs {
					for d := range steps {
						seq[i] = ev{m, d}
						if rec(i + 1) {
							return true
						}
					}
				}
				return false
			}
			now := time.Unix(100000, 0)
			l := New(time.Minute)
			l.nowFunc = func() time.Time { return now }
			lastMsg, lastTime, printedAny := "", time.Time{}, false
			var desc []string
			for k, e := range seq {
				now = now.Add(steps[e.d])
				buf.Reset()
				l.Print(msgs[e.m])
				desc = append(desc, fmt.Sprintf("+%v %q", steps[e.d], msgs[e.m]))
				out := buf.String()
				suppress := printedAny && msgs[e.m] == lastMsg && now.Sub(lastTime) < time.Minute
				var what string
				switch {
				case suppress && out != "":
					what = "an identical message inside the interval was printed again"
				case !suppress && out != msgs[e.m]+"\n":
					what = fmt.Sprintf("message %q must be printed unmodified, log got %q", msgs[e.m], out)
				}
				if what != "" {
					fmt.Printf("REPLAY-VIOLATION C20 %s; interval=1m0s history=[%s] (event %d)\n", what, strings.Join(desc, ", "), k+1)
					return true
				}
				if !suppress {
					lastMsg, lastTime, printedAny = msgs[e.m], now, true
				}
			}
			return false
		}
		if rec(0) {
			t.Fatal("violation reproduced on the real code")
		}
	}
}
