package motion

// Replay driver for the detector (C07 C08 C09 C15): seeded random small frames and
// configurations; Detect() on the REAL code is compared with a reference written
// from the property statements.

import (
	"fmt"
	"math/rand"
	"os"
	"strconv"
	"testing"
	"time"

	config "github.com/TheCacophonyProject/go-config"
	"github.com/TheCacophonyProject/go-cptv/cptvframe"
)

type detCam struct{ x, y int }

func (c detCam) ResX() int { return c.x }
func (c detCam) ResY() int { return c.y }
func (c detCam) FPS() int  { return 9 }

func detClamp(v, t uint16) int {
	if v < t {
		return int(t)
	}
	return int(v)
}

func TestReplayDetector(t *testing.T) {
	seed := int64(1)
	if s := os.Getenv("VERIF_SEED"); s != "" {
		if v, err := strconv.ParseInt(s, 10, 64); err == nil {
			seed = v
		}
	}
	rng := rand.New(rand.NewSource(seed))
	deadline := time.Now().Add(20 * time.Second)
	for iter := 0; time.Now().Before(deadline) && iter < 200000; iter++ {
		cam := detCam{4 + rng.Intn(3), 4 + rng.Intn(3)}
		mc := config.DefaultThermalMotion("lepton3")
		mc.EdgePixels = rng.Intn(2)
		mc.FrameCompareGap = 1 + rng.Intn(2)
		mc.UseOneDiffOnly = rng.Intn(2) == 0
		mc.WarmerOnly = rng.Intn(2) == 0
		mc.DeltaThresh = uint16(2 + rng.Intn(3))
		mc.CountThresh = 1 + rng.Intn(2)
		mc.TempThresh = uint16(10 + rng.Intn(3))
		mc.DynamicThreshold = rng.Intn(4) == 0
		mc.TempThreshMin, mc.TempThreshMax = 0, 0
		if mc.DynamicThreshold && rng.Intn(2) == 0 {
			mc.TempThreshMin, mc.TempThreshMax = uint16(9+rng.Intn(3)), uint16(12+rng.Intn(3))
			switch rng.Intn(6) {
			case 0:
				mc.TempThreshMax = mc.TempThreshMin // pinned threshold
			case 1:
				mc.TempThreshMin = 0
			case 2:
				mc.TempThreshMax = 0
			}
		}
		if !mc.DynamicThreshold && rng.Intn(3) == 0 {
			// a fixed threshold next to non-zero dynamic bounds: the bounds must be ignored (C07, C08)
			mc.TempThreshMin, mc.TempThreshMax = uint16(rng.Intn(3)*(5+rng.Intn(10))), uint16(rng.Intn(3)*(5+rng.Intn(10)))
		}
		preview := rng.Intn(3)
		d := NewMotionDetector(mc, preview, cam)
		d2 := NewMotionDetector(mc, preview, cam) // C08: fed the same stream with border (and cold) pixels changed
		var hist []*cptvframe.Frame // accepted since the last reset
		hit1 := [][]bool{}          // per frame: pixels exceeding delta against the compare frame
		mark := 0
		prevFFC := false
		ffcSeen := false
		n := 6 + rng.Intn(4)
		desc := fmt.Sprintf("res=%dx%d edge=%d gap=%d oneDiff=%v warmer=%v delta=%d count=%d temp=%d dynamic=%v min=%d max=%d preview=%d", cam.x, cam.y, mc.EdgePixels, mc.FrameCompareGap, mc.UseOneDiffOnly, mc.WarmerOnly, mc.DeltaThresh, mc.CountThresh, mc.TempThresh, mc.DynamicThreshold, mc.TempThreshMin, mc.TempThreshMax, preview)
		var frames [][][]uint16
		for k := 0; k < n; k++ {
			if rng.Intn(12) == 0 && k > 0 {
				d.Reset(cam)
				d2.Reset(cam)
				hist, hit1, mark, frames = nil, nil, 0, append(frames, nil)
				ffcSeen = prevFFC
				continue
			}
			f := cptvframe.NewFrame(cam)
			for y := range f.Pix {
				for x := range f.Pix[y] {
					f.Pix[y][x] = uint16(8 + rng.Intn(9))
				}
			}
			age := []time.Duration{30 * time.Second, 12 * time.Second, 10 * time.Second, 30 * time.Second, 30 * time.Second, 30 * time.Second}[rng.Intn(6)]
			if rng.Intn(6) == 0 {
				age = []time.Duration{3 * time.Second, 7 * time.Second, 9999 * time.Millisecond}[rng.Intn(3)]
			}
			ffc := age < 10*time.Second // the statement: within 10 s after a flat-field correction
			f.Status.TimeOn = time.Hour
			f.Status.LastFFCTime = time.Hour - age
			frames = append(frames, f.Pix)
			f2 := cptvframe.NewFrame(cam)
			f2.Status = f.Status
			for y := range f.Pix {
				for x := range f.Pix[y] {
					v := f.Pix[y][x]
					onBorder := y < mc.EdgePixels || x < mc.EdgePixels || y >= cam.y-mc.EdgePixels || x >= cam.x-mc.EdgePixels
					if onBorder {
						v = uint16(8 + rng.Intn(9))
					} else if !mc.DynamicThreshold && v <= mc.TempThresh {
						v = uint16(8 + rng.Intn(int(mc.TempThresh)-7))
					}
					f2.Pix[y][x] = v
				}
			}
			threshBefore := d.tempThresh
			got := d.Detect(f)
			got2 := d2.Detect(f2)
			fail := func(p, msg string) {
				fmt.Printf("REPLAY-VIOLATION %s %s; config: %s; seed=%d frame#%d frames=%v\n", p, msg, desc, seed, k, frames)
				t.Fatal("violation reproduced on the real code")
			}
			if got != got2 {
				fail("C08", fmt.Sprintf("detection differs (%v vs %v) between two streams that differ only in edge-border pixels and in pixels at or below temp-thresh; second frame %v", got, got2, f2.Pix))
			}
			if mc.DynamicThreshold && d.tempThresh != d2.tempThresh {
				fail("C08", "dynamic threshold influenced by edge-border pixels")
			}
			// C09: during FFC and on the frame directly following: never motion
			if (ffc || prevFFC) && got {
				fail("C09", "motion reported on an FFC-affected frame or the frame following it")
			}
			// C15 (dynamic threshold)
			if mc.DynamicThreshold {
				if ffc && d.tempThresh != threshBefore {
					fail("C15", "threshold changed during an FFC period")
				}
				if !ffc {
					sum, cnt := 0.0, 0
					for y := mc.EdgePixels; y < cam.y-mc.EdgePixels; y++ {
						for x := mc.EdgePixels; x < cam.x-mc.EdgePixels; x++ {
							if d.background.Pix[y][x] > f.Pix[y][x] {
								fail("C15", fmt.Sprintf("background warmer than the frame at (%d,%d)", y, x))
							}
							sum += float64(d.background.Pix[y][x])
							cnt++
						}
					}
					for y := 0; y < cam.y; y++ {
						for x := 0; x < cam.x; x++ {
							cy, cx := y, x
							if cy < mc.EdgePixels {
								cy = mc.EdgePixels
							}
							if cy > cam.y-mc.EdgePixels-1 {
								cy = cam.y - mc.EdgePixels - 1
							}
							if cx < mc.EdgePixels {
								cx = mc.EdgePixels
							}
							if cx > cam.x-mc.EdgePixels-1 {
								cx = cam.x - mc.EdgePixels - 1
							}
							if d.background.Pix[y][x] != d.background.Pix[cy][cx] {
								fail("C15", fmt.Sprintf("background border (%d,%d) does not replicate the nearest interior pixel", y, x))
							}
						}
					}
					if d.tempThresh != threshBefore {
						mean := sum / float64(cnt)
						want := mean
						if mc.TempThreshMin != 0 && want < float64(mc.TempThreshMin) {
							want = float64(mc.TempThreshMin)
						}
						if mc.TempThreshMax != 0 && want > float64(mc.TempThreshMax) {
							want = float64(mc.TempThreshMax)
						}
						if diff := float64(d.tempThresh) - want; diff > 0.001 || diff < -1.001 {
							fail("C15", fmt.Sprintf("recomputed threshold %d is not the clamped background mean %.3f", d.tempThresh, want))
						}
					}
				}
				prevFFC = ffc
				hist = append(hist, f)
				continue // C07 is about the fixed threshold
			}
			// C07 reference (fixed threshold)
			idx := len(hist)
			hist = append(hist, f)
			if ffc || prevFFC {
				ffcSeen = true
				mark = idx
				hit1 = append(hit1, nil)
				prevFFC = ffc
				// after an FFC pair the implementation also restarts its "first diff"
				continue
			}
			prevFFC = ffc
			cmp := idx - mc.FrameCompareGap
			if cmp < mark {
				cmp = mark
			}
			cur := make([]bool, cam.x*cam.y)
			count1 := 0
			for y := mc.EdgePixels; y < cam.y-mc.EdgePixels; y++ {
				for x := mc.EdgePixels; x < cam.x-mc.EdgePixels; x++ {
					a, b := detClamp(f.Pix[y][x], mc.TempThresh), detClamp(hist[cmp].Pix[y][x], mc.TempThresh)
					dd := a - b
					if dd < 0 {
						if mc.WarmerOnly {
							dd = 0
						} else {
							dd = -dd
						}
					}
					if dd > int(mc.DeltaThresh) {
						cur[y*cam.x+x] = true
						count1++
					}
				}
			}
			hit1 = append(hit1, cur)
			want := false
			known := true
			if idx == 0 {
				want = false
			} else if mc.UseOneDiffOnly {
				want = count1 >= mc.CountThresh
				// the frame right after an FFC pair / the very first diff is suppressed by the implementation
				if idx >= 1 && hit1[idx-1] == nil {
					known = false
				}
			} else {
				prev := hit1[idx-1]
				if prev == nil {
					known = false
				} else {
					c := 0
					for p := range cur {
						if cur[p] && prev[p] {
							c++
						}
					}
					want = c >= mc.CountThresh
				}
			}
			if idx == 1 && mc.UseOneDiffOnly {
				known = false // second frame: the implementation's first diff is never reported
			}
			if ffcSeen {
				// C07 speaks about streams without FFC events; after one, only the C09 rule is checked
				known = false
			}
			if known && got != want {
				fail("C07", fmt.Sprintf("Detect=%v, expected %v (frame index since reset %d, compared with %d, mark %d)", got, want, idx, cmp, mark))
			}
		}
	}
}
