package motion

// Replay driver for the MotionProcessor layer (C01 C02 C03 C04 C12 C13 C17).
// Injected with `go test -overlay` by govc when an obligation of this layer fails.
// It is NOT the deciding step: it searches, breadth first over a small event
// alphabet and from the constructor, for a history on the REAL code that trips an
// independent monitor written from the property statements. A hit is printed as
// REPLAY-VIOLATION <property> <history>.

import (
	"errors"
	"fmt"
	"os"
	"strings"
	"testing"
	"time"

	config "github.com/TheCacophonyProject/go-config"
	"github.com/TheCacophonyProject/go-cptv/cptvframe"
	"github.com/TheCacophonyProject/lepton3"
	"github.com/TheCacophonyProject/thermal-recorder/recorder"
	"github.com/TheCacophonyProject/window"
)

type rpCam struct{}

func (rpCam) ResX() int { return 6 }
func (rpCam) ResY() int { return 6 }
func (rpCam) FPS() int  { return 1 }

type rpSink struct {
	name                          string
	open                          bool
	failStart, failWrite, failStop bool
	canRec                        bool
	files                         [][]int // frame ids per file
	viol                          []string
	wfault                        bool
}

func (s *rpSink) StartRecording(*cptvframe.Frame, uint16) error {
	if s.open {
		s.viol = append(s.viol, s.name+": start while open")
	}
	if s.failStart {
		return errors.New("start failed")
	}
	s.open = true
	s.wfault = false
	s.files = append(s.files, nil)
	return nil
}
func (s *rpSink) StopRecording() error {
	s.open = false
	if s.failStop {
		return errors.New("stop failed")
	}
	return nil
}
func (s *rpSink) WriteFrame(f *cptvframe.Frame) error {
	if !s.open {
		s.viol = append(s.viol, s.name+": write while closed")
		return nil
	}
	id := int(f.Pix[0][0])
	s.files[len(s.files)-1] = append(s.files[len(s.files)-1], id)
	if s.failWrite {
		s.wfault = true
		return errors.New("write failed")
	}
	return nil
}
func (s *rpSink) CheckCanRecord() error {
	if !s.canRec {
		return errors.New("disk")
	}
	return nil
}

type rpListener struct{ motion bool }

func (l *rpListener) MotionDetected()   { l.motion = true }
func (l *rpListener) RecordingStarted() {}
func (l *rpListener) RecordingEnded()   {}

type rpWorld struct {
	mp                 *MotionProcessor
	m, c, s            *rpSink
	lis                *rpListener
	nextID             int
	bad                bool
	level              uint16
	now                time.Time
	trig, minF, maxF   int
	size               int
	// reference state
	accepted           []int // ids of accepted frames since start
	run                int
	rec                bool
	fw, lastMotion     int
	lastWritten        int // id of the last frame written to the motion sink, -1 none
	sinceStop          int // index in accepted of the first frame that may be re-used
	faulty             bool
	badSeen            bool
}

func newRPWorld(trig, preview, minS, maxS int, constant bool) *rpWorld {
	w := &rpWorld{trig: trig, minF: minS, maxF: maxS, size: preview + trig, lastWritten: -1, nextID: 1, level: 3000}
	w.m, w.c, w.s = &rpSink{name: "motion", canRec: true}, &rpSink{name: "continuous", canRec: true}, &rpSink{name: "test", canRec: true}
	w.lis = &rpListener{}
	win, _ := window.New("10:00", "14:00", 1, 1)
	w.now = time.Date(2020, 1, 1, 12, 0, 0, 0, time.Local)
	win.Now = func() time.Time { return w.now }
	rc := &recorder.RecorderConfig{MinSecs: minS, MaxSecs: maxS, PreviewSecs: preview, Window: *win}
	mc := config.DefaultThermalMotion("lepton3")
	mc.TriggerFrames = trig
	mc.UseOneDiffOnly = true
	mc.CountThresh = 1
	mc.DeltaThresh = 50
	mc.TempThresh = 1000
	mc.FrameCompareGap = 1
	mc.EdgePixels = 1
	mc.DynamicThreshold = false
	parse := func(raw []byte, f *cptvframe.Frame, edge int) error {
		if w.bad {
			return &lepton3.BadFrameErr{Cause: errors.New("bad")}
		}
		for y := range f.Pix {
			for x := range f.Pix[y] {
				f.Pix[y][x] = 2000
			}
		}
		f.Pix[0][0] = uint16(w.nextID)
		f.Pix[3][3] = w.level
		f.Status.TimeOn = time.Hour
		f.Status.LastFFCTime = time.Minute
		return nil
	}
	var cr recorder.Recorder
	if constant {
		cr = w.c
	}
	w.mp = NewMotionProcessor(parse, &mc, rc, nil, w.lis, w.m, rpCam{}, cr, w.s)
	return w
}

// events: 'm' frame with motion, 'n' frame without, 'b' bad frame, 'r' reset,
// 't' test-recording request, 'S'/'W'/'P' toggle start/write/stop failure of the
// motion sink, 'w' toggle window, 'd' toggle disk, 'C' toggle stop failure of the
// continuous sink.
func (w *rpWorld) step(ev byte) (viol string) {
	defer func() {
		if r := recover(); r != nil {
			viol = fmt.Sprintf("C12 panic: %v", r)
		}
	}()
	switch ev {
	case 'S':
		w.m.failStart = !w.m.failStart
		return ""
	case 'W':
		w.m.failWrite = !w.m.failWrite
		return ""
	case 'P':
		w.m.failStop = !w.m.failStop
		return ""
	case 'C':
		w.c.failStop = !w.c.failStop
		return ""
	case 'w':
		if w.now.Hour() == 12 {
			w.now = w.now.Add(8 * time.Hour)
		} else {
			w.now = w.now.Add(-8 * time.Hour)
		}
		return ""
	case 'd':
		w.m.canRec = !w.m.canRec
		return ""
	case 't':
		w.mp.StartSnapshot = true
		return ""
	case 'r':
		w.mp.Reset(rpCam{})
		if w.rec {
			w.rec, w.fw, w.run = false, 0, 0
			w.sinceStop = len(w.accepted)
		}
		return w.check("reset")
	case 'b':
		w.badSeen = true
		w.bad = true
		writesBefore := w.totalWrites()
		err := w.mp.Process(nil)
		w.bad = false
		if err == nil {
			return "C13 bad frame not reported"
		}
		if w.totalWrites() != writesBefore {
			return "C13 a frame was written while handling a bad frame"
		}
		if w.m.open || w.c.open {
			return "C13 recording left open after a bad frame"
		}
		if w.rec {
			w.rec, w.fw, w.run = false, 0, 0
			w.sinceStop = len(w.accepted)
		}
		return w.check("bad")
	}
	// valid frame
	if ev == 'm' {
		w.level += 100 // warmer than the previous frame by more than delta-thresh
	}
	id := w.nextID
	w.lis.motion = false
	nFilesBefore := len(w.m.files)
	if err := w.mp.Process(nil); err != nil {
		return "C13 valid frame rejected"
	}
	w.nextID++
	w.accepted = append(w.accepted, id)
	motion := w.lis.motion
	// ---- reference model (from the statements of C01..C04)
	started := false
	wasRec := w.rec
	if motion {
		w.run++
	} else {
		w.run = 0
	}
	windowOpen := w.now.Hour() >= 10 && w.now.Hour() < 14
	if !w.rec && motion && w.run >= w.trig && windowOpen && w.m.canRec && !w.m.failStart {
		started = true
		w.rec, w.fw, w.lastMotion = true, 0, 0
		w.faulty = false
	}
	if len(w.m.files) != nFilesBefore && !started {
		return "C04 a recording started although the start condition does not hold"
	}
	if len(w.m.files) == nFilesBefore && started {
		return "C04 no recording started although motion persisted, window open, storage ok"
	}
	if w.m.failWrite && w.rec {
		w.faulty = true
	}
	if w.rec {
		if wasRec && motion {
			w.lastMotion = w.fw
		}
		w.fw++
		cur := w.m.files[len(w.m.files)-1]
		if len(cur) == 0 || cur[len(cur)-1] != id {
			return fmt.Sprintf("C01 frame %d of an open recording was not written (file %v)", id, cur)
		}
		if started && !w.faulty {
			// C02: first frame of the file
			first := len(w.accepted) - w.size
			if first < w.sinceStop {
				first = w.sinceStop
			}
			if first < 0 {
				first = 0
			}
			if cur[0] != w.accepted[first] {
				return fmt.Sprintf("C02 recording starts at frame %d, expected %d (file %v)", cur[0], w.accepted[first], cur)
			}
		}
		if !w.faulty {
			for i := 1; i < len(cur); i++ {
				if cur[i] != cur[i-1]+1 {
					return fmt.Sprintf("C01 gap or repeat inside a recording: %v", cur)
				}
			}
		}
		limit := w.lastMotion + w.minF
		if limit > w.maxF {
			limit = w.maxF
		}
		shouldStop := w.fw >= limit
		if !w.faulty {
			if shouldStop && w.m.open {
				return fmt.Sprintf("C03 recording not ended after %d frames (last motion at %d, min %d, max %d)", w.fw, w.lastMotion, w.minF, w.maxF)
			}
			if !shouldStop && !w.m.open {
				return fmt.Sprintf("C03 recording ended early after %d frames (last motion at %d, min %d, max %d)", w.fw, w.lastMotion, w.minF, w.maxF)
			}
		}
		if !w.m.open {
			w.rec, w.fw, w.run = false, 0, 0
			w.sinceStop = len(w.accepted)
		}
	} else if w.m.open {
		return "C12 motion sink open while the processor is idle"
	}
	return w.check("frame")
}

func (w *rpWorld) totalWrites() int {
	n := 0
	for _, s := range []*rpSink{w.m, w.c, w.s} {
		for _, f := range s.files {
			n += len(f)
		}
	}
	return n
}

func (w *rpWorld) check(string) string {
	for _, s := range []*rpSink{w.m, w.c, w.s} {
		if len(s.viol) > 0 {
			return "C12 " + strings.Join(s.viol, "; ")
		}
	}
	// C01: no frame in two motion recordings
	seen := map[int]bool{}
	for _, f := range w.m.files {
		for _, id := range f {
			if seen[id] {
				return fmt.Sprintf("C01 frame %d written into two recordings %v", id, w.m.files)
			}
			seen[id] = true
		}
	}
	// C17: continuous files hold max+1 consecutive frames (closed ones), tiling
	for i, f := range w.c.files {
		closed := i < len(w.c.files)-1 || !w.c.open
		if closed && !w.c.failStop && len(f) != w.maxF+1 && len(f) > 0 && !w.badSeen {
			return fmt.Sprintf("C17 continuous file of %d frames, expected %d", len(f), w.maxF+1)
		}
	}
	for _, f := range w.s.files[:max0(len(w.s.files)-1)] {
		if len(f) != 21 {
			return fmt.Sprintf("C17 test recording of %d frames", len(f))
		}
	}
	return ""
}

func max0(a int) int {
	if a < 0 {
		return 0
	}
	return a
}

var _ = os.Getenv

func (w *rpWorld) hadBad() bool { return false }

func TestReplayProcessor(t *testing.T) {
	alphabet := []byte("mnbrtSWPwdC")
	type cfg struct {
		trig, preview, min, max int
		constant               bool
	}
	cfgs := []cfg{{1, 1, 1, 3, true}, {2, 1, 0, 2, false}, {0, 2, 2, 2, true}, {1, 0, 1, 2, false}, {1, 1, 3, 5, false}, {3, 2, 2, 4, true}}
	// scripted long histories first (beyond the breadth-first depth): a test recording
	// is 21 frames; sustained motion; motion bursts around the max-secs cap
	scripts := []string{"t" + strings.Repeat("n", 25) + "t" + strings.Repeat("n", 25), strings.Repeat("m", 12), "n" + strings.Repeat("m", 3) + strings.Repeat("n", 6) + strings.Repeat("m", 5),
		"mm" + strings.Repeat("n", 3) + "mm" + strings.Repeat("n", 5), "t" + strings.Repeat("m", 24),
		"nmmnmnnnnnn", "nmnmmnnnnn", "nmnnmnnnnn", "mmmwmmwmmm", "mmmdmmdmmm", "nmmbmmmnnn", "nmmrmmmnnn", "nmmnnbmmmm", "nmmnnrmmmm", "mmSmmSmmmm", "nmmWmmnnWnmm", "nmmPnnnPmmm"}
	for _, c := range cfgs {
		for _, sc := range scripts {
			w := newRPWorld(c.trig, c.preview, c.min, c.max, c.constant)
			for k := 0; k < len(sc); k++ {
				if v := w.step(sc[k]); v != "" {
					fmt.Printf("REPLAY-VIOLATION %s config={trigger-frames:%d preview-frames:%d min-frames:%d max-frames:%d continuous:%v} history=%q (event %d)\n", v, c.trig, c.preview, c.min, c.max, c.constant, sc[:k+1], k+1)
					t.Fatal("violation reproduced on the real code")
				}
			}
		}
	}
	deadline := time.Now().Add(25 * time.Second)
	for depth := 1; depth <= 7; depth++ {
		for _, c := range cfgs {
			seq := make([]byte, depth)
			var rec func(i int) bool
			rec = func(i int) bool {
				if i == depth {
					w := newRPWorld(c.trig, c.preview, c.min, c.max, c.constant)
					for k, ev := range seq {
						if ev == 'b' {
							w.badSeen = true
						}
						if v := w.step(ev); v != "" {
							fmt.Printf("REPLAY-VIOLATION %s config={trigger-frames:%d preview-frames:%d min-frames:%d max-frames:%d continuous:%v} history=%q (event %d)\n", v, c.trig, c.preview, c.min, c.max, c.constant, string(seq[:k+1]), k+1)
							return true
						}
					}
					return false
				}
				for _, a := range alphabet {
					seq[i] = a
					if rec(i + 1) {
						return true
					}
					if time.Now().After(deadline) {
						return false
					}
				}
				return false
			}
			if rec(0) {
				t.Fatal("violation reproduced on the real code")
			}
		}
	}
}
