package throttle

// Replay driver for the throttle (C05 C06): breadth-first over
// {start, write, stop, clock +1 s, clock +10 s, base-start-fails toggle} on the
// REAL ThrottledRecorder with a fake clock, checked by an independent monitor.

import (
	"errors"
	"fmt"
	"testing"
	"time"

	config "github.com/TheCacophonyProject/go-config"
	"github.com/TheCacophonyProject/go-cptv/cptvframe"
)

type thCam struct{}

func (thCam) ResX() int { return 2 }
func (thCam) ResY() int { return 2 }
func (thCam) FPS() int  { return 2 }

type thClock struct{ now time.Time }

func (c *thClock) Now() time.Time        { return c.now }
func (c *thClock) Sleep(d time.Duration) { c.now = c.now.Add(d) }

type thBase struct {
	open      bool
	failStart bool
	failStop  bool
	files     [][]*cptvframe.Frame
	bgs       []*cptvframe.Frame
	viol      string
	writes    int
}

func (b *thBase) StartRecording(bg *cptvframe.Frame, th uint16) error {
	if b.open {
		b.viol = "start while open"
	}
	if b.failStart {
		return errors.New("start failed")
	}
	b.open = true
	b.files = append(b.files, nil)
	b.bgs = append(b.bgs, bg)
	return nil
}
func (b *thBase) StopRecording() error {
	if !b.open {
		b.viol = "stop forwarded while no file is open"
	}
	b.open = false
	if b.failStop {
		return errors.New("stop failed (the file is closed, its rename was refused)")
	}
	return nil
}
func (b *thBase) WriteFrame(f *cptvframe.Frame) error {
	if !b.open {
		b.viol = "write while closed"
		return nil
	}
	b.files[len(b.files)-1] = append(b.files[len(b.files)-1], f)
	b.writes++
	return nil
}
func (b *thBase) CheckCanRecord() error { return nil }

type thListener struct{ events int }

func (l *thListener) WhenThrottled() { l.events++ }

const bucketSecs, minSecs, refillSecs, fps = 2, 1, 6, 2 // capacity 4 frames, min clip 2 frames, 2 frames per 6 s

// runThrottleSeq plays one history on a fresh ThrottledRecorder; "" = no violation.
func runThrottleSeq(seq []byte) string {
	base, lis, clk := &thBase{}, &thListener{}, &thClock{now: time.Unix(1000, 0)}
	conf := &config.ThermalThrottler{Activate: true, BucketSize: bucketSecs * time.Second, MinRefill: refillSecs * time.Second}
	tr := NewThrottledRecorderWithClock(base, conf, minSecs, lis, clk, thCam{})
	bg := cptvframe.NewFrame(thCam{})
	vopen := false // what the client (motion processor) believes
	elapsed := 0.0
	for k, o := range seq {
		evBefore, filesBefore, writesBefore, wasOpen := lis.events, len(base.files), base.writes, base.open
		what := ""
		switch o {
		case 's':
			if vopen {
				continue // the client never starts twice
			}
			err := tr.StartRecording(bg, 7)
			if err == nil {
				vopen = true
			}
			if base.open && len(base.files) == filesBefore+1 && base.bgs[len(base.bgs)-1] != bg {
				what = "C06 start forwarded with a different background"
			}
			if !base.open && !base.failStart && err == nil && lis.events != evBefore+1 {
				what = "C06 suppressed start without exactly one throttled event"
			}
			if base.open && lis.events != evBefore {
				what = "C06 throttled event although the start was forwarded"
			}
		case 'w':
			if !vopen {
				continue
			}
			f := cptvframe.NewFrame(thCam{})
			tr.WriteFrame(f)
			if base.writes == writesBefore+1 {
				cur := base.files[len(base.files)-1]
				if cur[len(cur)-1] != f {
					what = "C06 a different frame was forwarded"
				}
				if lis.events != evBefore {
					what = "C06 throttled event although the frame was forwarded"
				}
			} else if wasOpen {
				if base.open {
					what = "C06 frame dropped but the file was left open"
				}
				if lis.events != evBefore+1 {
					what = fmt.Sprintf("C06 cut produced %d throttled events, expected exactly 1", lis.events-evBefore)
				}
				if n := len(base.files[len(base.files)-1]); n < minSecs*fps {
					what = fmt.Sprintf("C06 throttle-cut file holds %d frames, fewer than the minimum clip of %d", n, minSecs*fps)
				}
			} else {
				if lis.events != evBefore {
					what = "C06 throttled event for a dropped frame while no file is open"
				}
				if len(base.files) != filesBefore && base.writes == writesBefore && !base.failStart {
					what = "C06 file restarted without writing the frame"
				}
			}
			if len(base.files) == filesBefore+1 && base.bgs[len(base.bgs)-1] != bg {
				what = "C06 mid-trigger restart without the remembered background"
			}
		case 'x':
			if !vopen {
				continue
			}
			tr.StopRecording()
			vopen = false
			if base.open {
				what = "C06 stop not forwarded"
			}
		case 't':
			clk.now = clk.now.Add(time.Second)
			elapsed += 1
		case 'T':
			clk.now = clk.now.Add(10 * time.Second)
			elapsed += 10
		case 'f':
			base.failStart = !base.failStart
		case 'g':
			base.failStop = !base.failStop
		}
		if what == "" && base.viol != "" {
			what = "C06 wrapped recorder saw: " + base.viol
		}
		// C05: frames reaching storage <= bucket + refill earned (+2 frames of tick quantisation, 1% rate margin)
		bound := float64(bucketSecs*fps) + elapsed*float64(minSecs*fps)/float64(refillSecs)*1.01 + 2
		if what == "" && float64(base.writes) > bound {
			what = fmt.Sprintf("C05 %d frames reached storage in %.0f s, bound %.2f", base.writes, elapsed, bound)
		}
		if what != "" {
			return fmt.Sprintf("%s; bucket=%ds min-clip=%d frames refill=%d frames/%ds fps=%d; ops=%q (op %d) [s=start w=write x=stop t=+1s T=+10s f=toggle failing base start g=toggle failing base stop]", what, bucketSecs, minSecs*fps, minSecs*fps, refillSecs, fps, string(seq[:k+1]), k+1)
		}
	}
	return ""
}

func TestReplayThrottle(t *testing.T) {
	for _, sc := range []string{"swwwwwTfwfww", "swwwwwTfwwfTww", "sfwwTfswww", "swwwwwwTTwwwwwwxTTswwwww", "swwxswwxswwxswwxswwTswww", "swwwwwTTTTTTwwwwwwwwwwwwww", "swwwgwwwwww", "sgwwwwwwTTwwwgwwxsww"} {
		if v := runThrottleSeq([]byte(sc)); v != "" {
			fmt.Println("REPLAY-VIOLATION " + v)
			t.Fatal("violation reproduced on the real code")
		}
	}
	ops := []byte("swxtTfg")
	deadline := time.Now().Add(20 * time.Second)
	for depth := 1; depth <= 9; depth++ {
		seq := make([]byte, depth)
		var rec func(i int) bool
		rec = func(i int) bool {
			if i < depth {
				for _, o := range ops {
					seq[i] = o
					if rec(i + 1) {
						return true
					}
				}
				return false
			}
			if time.Now().After(deadline) {
				return false
			}
			if v := runThrottleSeq(seq); v != "" {
				fmt.Println("REPLAY-VIOLATION " + v)
				return true
			}
			return false
		}
		if rec(0) {
			t.Fatal("violation reproduced on the real code")
		}
	}
}
