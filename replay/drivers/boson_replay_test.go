package main

// Replay drivers for cmd/thermal-recorder: Boson raw frames (C13) and the CPTV file
// recorder on a real temporary directory (C10 C11 C12).

import (
	"fmt"
	"io/ioutil"
	"math/rand"
	"os"
	"path/filepath"
	"sort"
	"strings"
	"testing"

	cptv "github.com/TheCacophonyProject/go-cptv"
	goconfig "github.com/TheCacophonyProject/go-config"
	"github.com/TheCacophonyProject/go-cptv/cptvframe"
	"github.com/TheCacophonyProject/lepton3"
)

type rpCam struct{ x, y int }

func (c rpCam) ResX() int { return c.x }
func (c rpCam) ResY() int { return c.y }
func (c rpCam) FPS() int  { return 9 }

func TestReplayBoson(t *testing.T) {
	rng := rand.New(rand.NewSource(1))
	for iter := 0; iter < 20000; iter++ {
		cam := rpCam{3 + rng.Intn(4), 3 + rng.Intn(4)}
		edge := rng.Intn(2)
		raw := make([]byte, cam.x*cam.y*2)
		for i := range raw {
			raw[i] = byte(1 + rng.Intn(255))
		}
		var zeros [][2]int
		for z := rng.Intn(3); z > 0; z-- {
			y, x := rng.Intn(cam.y), rng.Intn(cam.x)
			raw[2*(y*cam.x+x)], raw[2*(y*cam.x+x)+1] = 0, 0
			zeros = append(zeros, [2]int{y, x})
		}
		out := cptvframe.NewFrame(cam)
		err := convertRawBosonFrame(raw, out, edge)
		wantBad := false
		for _, z := range zeros {
			if z[0] >= edge && z[1] >= edge && z[0] < cam.y-edge && z[1] < cam.x-edge {
				wantBad = true
			}
		}
		_, isBad := err.(*lepton3.BadFrameErr)
		what := ""
		if wantBad != (err != nil) || (err != nil && !isBad) {
			what = fmt.Sprintf("error=%v but a zero pixel off the border exists=%v", err, wantBad)
		}
		if err == nil {
			for y := 0; y < cam.y && what == ""; y++ {
				for x := 0; x < cam.x; x++ {
					if w := uint16(raw[2*(y*cam.x+x)]) | uint16(raw[2*(y*cam.x+x)+1])<<8; out.Pix[y][x] != w {
						what = fmt.Sprintf("pixel (%d,%d) decoded as %d, raw little-endian word is %d", y, x, out.Pix[y][x], w)
						break
					}
				}
			}
		}
		if what != "" {
			fmt.Printf("REPLAY-VIOLATION C13 %s; res=%dx%d edge-pixels=%d zero pixels at %v raw=%v\n", what, cam.x, cam.y, edge, zeros, raw)
			t.Fatal("violation reproduced on the real code")
		}
	}
}

func listDir(dir string) []string {
	var out []string
	filepath.Walk(dir, func(p string, fi os.FileInfo, err error) error {
		if err == nil && !fi.IsDir() {
			rel, _ := filepath.Rel(dir, p)
			out = append(out, rel)
		}
		return nil
	})
	sort.Strings(out)
	return out
}

func TestReplayFileRecorder(t *testing.T) {
	dir, err := ioutil.TempDir("", "replay-cfr")
	if err != nil {
		t.Skip(err)
	}
	defer os.RemoveAll(dir)
	cam := rpCam{8, 6}
	conf := &Config{OutputDir: dir, DeviceName: "dev-x", DeviceID: 42, MinDiskSpace: 0}
	conf.Recorder.PreviewSecs = 3
	conf.Motion = goconfig.DefaultThermalMotion("lepton3")
	fail := func(p, msg string) {
		fmt.Printf("REPLAY-VIOLATION %s %s; directory now holds %v\n", p, msg, listDir(dir))
		t.Fatal("violation reproduced on the real code")
	}
	finals := func() []string {
		var out []string
		for _, n := range listDir(dir) {
			if strings.HasSuffix(n, ".cptv") {
				out = append(out, n)
			}
		}
		return out
	}
	mkFrame := func(v uint16) *cptvframe.Frame {
		f := cptvframe.NewFrame(cam)
		for y := range f.Pix {
			for x := range f.Pix[y] {
				f.Pix[y][x] = v + uint16(y*cam.x+x)
			}
		}
		return f
	}
	rec := NewCPTVFileRecorder(conf, cam, "flir", "lepton3.5", 77, "1.2.3")
	bg := mkFrame(1000)
	// 1. a complete recording
	if err := rec.StartRecording(bg, 2900); err != nil {
		t.Skip(err)
	}
	if len(finals()) != 0 {
		fail("C10", "a .cptv name exists while the recording is still in progress")
	}
	frames := []*cptvframe.Frame{mkFrame(3000), mkFrame(0), mkFrame(65000)}
	for _, f := range frames {
		func() {
			defer func() {
				if r := recover(); r != nil {
					fail("C12", fmt.Sprintf("WriteFrame panicked: %v", r))
				}
			}()
			rec.WriteFrame(f)
		}()
		if len(finals()) != 0 {
			fail("C10", "a .cptv name exists while the recording is still in progress")
		}
	}
	if err := rec.StopRecording(); err != nil {
		fail("C10", "StopRecording failed: "+err.Error())
	}
	fin := finals()
	if len(fin) != 1 || len(listDir(dir)) != 1 {
		fail("C10", "after a clean stop exactly one .cptv file and nothing else is expected")
	}
	r, err := cptv.NewFileReader(filepath.Join(dir, fin[0]))
	if err != nil {
		fail("C10", "finished recording does not decode: "+err.Error())
	}
	if r.DeviceName() != "dev-x" || r.DeviceID() != 42 || r.PreviewSecs() != 3 || r.BrandName() != "flir" || r.ModelName() != "lepton3.5" || r.SerialNumber() != 77 || r.FirmwareVersion() != "1.2.3" || r.FPS() != 9 {
		fail("C11", fmt.Sprintf("header fields differ: name=%q id=%d preview=%d brand=%q model=%q serial=%d firmware=%q fps=%d", r.DeviceName(), r.DeviceID(), r.PreviewSecs(), r.BrandName(), r.ModelName(), r.SerialNumber(), r.FirmwareVersion(), r.FPS()))
	}
	if !strings.Contains(r.MotionConfig(), "triggeredthresh: 2900") {
		fail("C11", "motion configuration in the header lacks the threshold at trigger time: "+r.MotionConfig())
	}
	got := r.EmptyFrame()
	want := append([]*cptvframe.Frame{bg}, frames...)
	for i, w := range want {
		if err := r.ReadFrame(got); err != nil {
			fail("C11", fmt.Sprintf("frame %d of the finished recording does not decode: %v", i, err))
		}
		for y := range w.Pix {
			for x := range w.Pix[y] {
				if got.Pix[y][x] != w.Pix[y][x] {
					fail("C11", fmt.Sprintf("decoded frame %d differs at (%d,%d): %d vs %d (frame 0 is the background)", i, y, x, got.Pix[y][x], w.Pix[y][x]))
				}
			}
		}
	}
	r.Close()
	os.Remove(filepath.Join(dir, fin[0]))
	// 2. connection loss: Stop() discards the file in progress
	rec.StartRecording(bg, 1)
	rec.WriteFrame(frames[0])
	rec.Stop()
	if l := listDir(dir); len(l) != 0 {
		fail("C10", "Stop() on connection loss left files behind")
	}
	// 3. kill in the middle of a recording, then start-up clean-up
	rec2 := NewCPTVFileRecorder(conf, cam, "flir", "lepton3.5", 77, "1.2.3")
	rec2.StartRecording(bg, 1)
	rec2.WriteFrame(frames[0])
	ioutil.WriteFile(filepath.Join(dir, "20190101.000000.000.cptv"), []byte("x"), 0644)
	if err := deleteTempFiles(dir); err != nil {
		fail("C10", "deleteTempFiles failed: "+err.Error())
	}
	if l := listDir(dir); len(l) != 1 || l[0] != "20190101.000000.000.cptv" {
		fail("C10", "after a kill and the start-up clean-up only complete recordings may remain")
	}
}
