package motion

// Replay driver for FrameLoop (C19): breadth-first over {Move, SetAsOldest, Reset}
// for capacities 1..4, comparing GetHistory / Oldest / CopyRecent with a model
// written from the statement (sequence numbers, slot = seq mod capacity).

import (
	"fmt"
	"testing"
)

type ringModel struct {
	size, n, mark int
	content      []int // id stored in each slot
}

func (m *ringModel) hs() int {
	h := m.n - m.size + 1
	if m.mark > h {
		h = m.mark
	}
	if h < 0 {
		h = 0
	}
	return h
}

func TestReplayRing(t *testing.T) {
	ops := []byte("MSR")
	for size := 1; size <= 4; size++ {
		for depth := 1; depth <= 9; depth++ {
			seq := make([]byte, depth)
			var rec func(i int) bool
			rec = func(i int) bool {
				if i < depth {
					for _, o := range ops {
						seq[i] = o
						if rec(i + 1) {
							return true
						}
					}
					return false
				}
				fl := NewFrameLoop(size, ringCam{})
				m := &ringModel{size: size, content: make([]int, size)}
				id := 1
				fl.Current().Pix[0][0] = uint16(id)
				m.content[0] = id
				for k, o := range seq {
					switch o {
					case 'M':
						f := fl.Move()
						id++
						f.Pix[0][0] = uint16(id)
						m.n++
						m.content[m.n%size] = id
					case 'S':
						fl.SetAsOldest()
						m.mark = m.n
					case 'R':
						fl.Reset()
						m.n, m.mark = 0, 0
						id++
						fl.Current().Pix[0][0] = uint16(id)
						m.content[0] = id
					}
					var want []int
					for s := m.hs(); s <= m.n; s++ {
						want = append(want, m.content[s%size])
					}
					var got []int
					for _, f := range fl.GetHistory() {
						got = append(got, int(f.Pix[0][0]))
					}
					bad := fmt.Sprint(got) != fmt.Sprint(want)
					what := fmt.Sprintf("GetHistory = %v, expected %v", got, want)
					if !bad {
						// Oldest: the marked frame while buffered, otherwise the frame about to be overwritten
						wantOld := m.content[(m.n+1)%size]
						if m.mark > m.n-size {
							wantOld = m.content[m.mark%size]
						}
						if g := int(fl.Oldest().Pix[0][0]); g != wantOld {
							bad, what = true, fmt.Sprintf("Oldest = %d, expected %d", g, wantOld)
						}
					}
					if !bad && m.n >= 1 {
						if g := int(fl.CopyRecent().Pix[0][0]); g != m.content[(m.n-1)%size] {
							bad, what = true, fmt.Sprintf("CopyRecent = %d, expected %d", g, m.content[(m.n-1)%size])
						}
					}
					if bad {
						fmt.Printf("REPLAY-VIOLATION C19 %s capacity=%d ops=%q (op %d)\n", what, size, string(seq[:k+1]), k+1)
						return true
					}
				}
				return false
			}
			if rec(0) {
				t.Fatal("violation reproduced on the real code")
			}
		}
	}
}

type ringCam struct{}

func (ringCam) ResX() int { return 2 }
func (ringCam) ResY() int { return 2 }
func (ringCam) FPS() int  { return 1 }
