package headers

// Replay driver for the camera header (C14): generated headers written in random
// chunk sizes, truncated headers, and the bytes left for the frame stream.

import (
	"bufio"
	"fmt"
	"io"
	"math/rand"
	"testing"

	yaml "gopkg.in/yaml.v1"
)

type chunkReader struct {
	data []byte
	rng  *rand.Rand
}

func (c *chunkReader) Read(p []byte) (int, error) {
	if len(c.data) == 0 {
		return 0, io.EOF
	}
	n := 1 + c.rng.Intn(7)
	if n > len(c.data) {
		n = len(c.data)
	}
	if n > len(p) {
		n = len(p)
	}
	copy(p, c.data[:n])
	c.data = c.data[n:]
	return n, nil
}

func TestReplayHeaders(t *testing.T) {
	rng := rand.New(rand.NewSource(1))
	for iter := 0; iter < 3000; iter++ {
		want := map[string]interface{}{
			XResolution: 1 + rng.Intn(640), YResolution: 1 + rng.Intn(480), FPS: 1 + rng.Intn(60), FrameSize: 5 + rng.Intn(100000),
			Brand: []string{"flir", "acme"}[rng.Intn(2)], Model: []string{"lepton3", "lepton3.5", "boson"}[rng.Intn(3)],
			Serial: rng.Intn(1 << 30), Firmware: fmt.Sprintf("%d.%d.%d", rng.Intn(9), rng.Intn(9), rng.Intn(99)),
		}
		hdr, _ := yaml.Marshal(want)
		tail := []byte("clearFRAMEDATA\n\nmore")
		stream := append(append(append([]byte{}, hdr...), '\n'), tail...)
		fail := func(msg string) {
			fmt.Printf("REPLAY-VIOLATION C14 %s; header=%q\n", msg, string(hdr))
			t.Fatal("violation reproduced on the real code")
		}
		rd := bufio.NewReader(&chunkReader{data: stream, rng: rng})
		h, err := ReadHeaderInfo(rd)
		if err != nil || h == nil {
			fail(fmt.Sprintf("complete header rejected: %v", err))
		}
		if h.ResX() != want[XResolution] || h.ResY() != want[YResolution] || h.FPS() != want[FPS] || h.FrameSize() != want[FrameSize] ||
			h.Brand() != want[Brand] || h.Model() != want[Model] || h.CameraSerial() != want[Serial] || h.Firmware() != want[Firmware] {
			fail(fmt.Sprintf("fields do not round-trip: got %dx%d@%d size %d %s %s serial %d firmware %s", h.ResX(), h.ResY(), h.FPS(), h.FrameSize(), h.Brand(), h.Model(), h.CameraSerial(), h.Firmware()))
		}
		rest, _ := io.ReadAll(rd)
		if string(rest) != string(tail) {
			fail(fmt.Sprintf("bytes after the blank line were consumed or lost: %q left, expected %q", rest, tail))
		}
		// truncated header: connection closes before the blank line
		cut := rng.Intn(len(hdr))
		rd = bufio.NewReader(&chunkReader{data: append([]byte{}, hdr[:cut]...), rng: rng})
		h, err = ReadHeaderInfo(rd)
		if err == nil || h != nil {
			fail(fmt.Sprintf("header cut after %d bytes yields (%v, %v) instead of an error", cut, h, err))
		}
	}
}
