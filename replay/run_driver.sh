#!/bin/bash
# run_driver.sh <repo> <pkgdir> <driver-file> <TestName>  - injects the driver with -overlay
# (tests whose name contains Race run under the race detector)
export GOFLAGS=-mod=mod GOPROXY=off GOSUMDB=off GOTOOLCHAIN=local
REPO="$1"; PKG="$2"; DRV="$3"; TEST="$4"
ov=$(mktemp /tmp/replay-ov-XXXXXX.json)
printf '{"Replace": {"%s/%s/zz_replay_driver_test.go": "%s"}}\n' "$REPO" "$PKG" "$DRV" > "$ov"
RACE=""; LIMIT="ulimit -v 8000000"
case "$TEST" in *Race*) RACE="-race"; LIMIT="true";; esac   # the race detector needs a large address space
(cd "$REPO" && $LIMIT && go test $RACE -overlay "$ov" -vet=off -count=1 -timeout 120s -run "^($TEST)\$" "./$PKG" 2>&1)
rc=$?
rm -f "$ov"
exit $rc
